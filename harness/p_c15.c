/* C15 -- initialisation, worker count, finalisation, configuration parsing.
 *
 * (a) environment scenario (prop 15): a generated map over MYTH_NUM_WORKERS, MYTH_DEF_STKSIZE,
 *     MYTH_BIND_WORKERS, MYTH_CPU_LIST, MYTH_CHILD_FIRST, MYTH_DEF_GUARDSIZE with values from
 *     {unset, "", clean integers incl. 0 and negatives, junk, integer+junk, whitespace, control
 *     characters, list-grammar mutations}; well-formed but unusable requests (a default stack below
 *     16 KiB or above 64 MiB, more than 64 workers, numbers beyond int) are excluded by construction.
 *     Then implicit (first use) or explicit initialisation, 2*W threads, finalisation.
 *     Oracle: no crash / hang; myth_get_num_workers() == the request for a clean positive integer,
 *     == CPU count when unset / empty / not positive / non-numeric; every worker index in [0,W).
 * (b) init/fini histories (prop 35): up to 20 (quick) / 200 (thorough) cycles of
 *     myth_init_ex(attr: workers 1..16, stack size) | myth_init() | implicit init | two plain pthreads
 *     racing myth_init(); fork-join work that makes the main thread block and resume elsewhere;
 *     myth_fini() from wherever the main thread is.
 *     Oracle: worker count matches the attribute; exactly one racer becomes the worker; after fini
 *     the number of OS threads (/proc/self/task) is back to the baseline; the next cycle works.
 */
#include "scen_util.h"
#include <pthread.h>
#include <dirent.h>

static int count_os_threads(void) {
  int n = 0; DIR * d = opendir("/proc/self/task"); if (!d) return -1;
  struct dirent * e; while ((e = readdir(d))) if (e->d_name[0] != '.') n++;
  closedir(d); return n;
}

/* pthread_join returns when the kernel has cleared the tid word, slightly before the task disappears
   from /proc: poll briefly; a worker that really did not stop never goes away */
static int count_os_threads(void);
static int settle_os_threads(int expect) {
  int n = 0;
  for (int i = 0; i < 400; i++) { n = count_os_threads(); if (n == expect) return n; usleep(5000); }
  return n;
}
static volatile int bad_rank; static int gW = 1 << 30;   /* until the worker count is known every index >= 0 is accepted */
static void * leaf(void * a) {
  int r = myth_get_worker_num();
  if (r < 0 || r >= gW) bad_rank = r + 1000;
  for (int i = 0; i < (int)(intptr_t)a; i++) myth_yield();
  return a;
}
static void * node(void * a) {
  long d = (long)a;
  int r = myth_get_worker_num(); if (r < 0 || r >= gW) bad_rank = r + 1000;
  if (d <= 0) return leaf((void *)1);
  myth_thread_t t[3]; for (int i = 0; i < 3; i++) t[i] = myth_create(node, (void *)(d - 1));
  for (int i = 0; i < 3; i++) Z0(myth_join(t[i], 0));
  return a;
}

/* ------------------------------ (a) environment ------------------------------ */
enum { V_UNSET, V_EMPTY, V_CLEAN, V_ZERO, V_NEG, V_JUNK, V_INTJUNK, V_WS, V_CTRL, V_LIST, V_NKINDS };
static const char * vkname[] = { "unset", "empty", "clean", "zero", "negative", "junk", "int+junk", "whitespace", "control", "list" };
static const char * junk[] = { "abc", "x1", "--", "+", "0x10", "1e3", "٣", "NaN", "-", " ", "\t\n", "4,4", "4.5" };
static const char * lists[] = { "0", "0-4", "0,1,2", "0-16:2", "3-1", "0-", ",", "0,,1", "0-4:", "0-4:0", "a-b", "0-99999", "1,2,3\n", "\n", "0-4;5", "0 , 1", "999999999", "0-1025", "0:2" };

static void make_value(rd_t * r, int var, char * out, size_t cap, int * kind_out, long * clean_out) {
  int kind = (int)rd_below(r, V_NKINDS); *clean_out = -1;
  long vals_workers[] = { 1, 2, 3, 4, 7, 8, 16, 32, 64 };
  long vals_stk[] = { 16384, 32768, 65536, 131072, 262144, 1048576 };
  long vals_small[] = { 0, 1, 2, 4096, 8192 };
  out[0] = 0;
  switch (kind) {
  case V_UNSET: case V_EMPTY: break;
  case V_CLEAN: { long v = var == 0 ? vals_workers[rd_below(r, 9)] : var == 1 ? vals_stk[rd_below(r, 6)] : var == 5 ? vals_small[rd_below(r, 5)] : (long)rd_below(r, 3); snprintf(out, cap, "%ld", v); *clean_out = v; break; }
  case V_ZERO: snprintf(out, cap, "%s", (const char *[]){ "0", "00", "-0", "+0" }[rd_below(r, 4)]); break;
  case V_NEG: snprintf(out, cap, "%s", (const char *[]){ "-1", "-2", "-16", "-131072", "-2147483648" }[rd_below(r, 5)]); break;
  case V_JUNK: snprintf(out, cap, "%s", junk[rd_below(r, sizeof junk / sizeof junk[0])]);
    /* for the stack size a junk string with a numeric prefix 1..9 is a well-formed-looking but unusable request (a stack of a few bytes): excluded by construction */
    if (var == 1 && out[0] >= '1' && out[0] <= '9') out[0] = 'q';
    break;
  case V_INTJUNK: { long v = var == 0 ? vals_workers[rd_below(r, 9)] : var == 1 ? vals_stk[rd_below(r, 6)] : 1; snprintf(out, cap, "%ld%s", v, (const char *[]){ "abc", " ", ",", ".5", "k", "\n" }[rd_below(r, 6)]); break; }
  case V_WS: { long v = var == 0 ? vals_workers[rd_below(r, 9)] : var == 1 ? vals_stk[rd_below(r, 6)] : 1; snprintf(out, cap, "%s%ld", (const char *[]){ " ", "\t", "\n", "  " }[rd_below(r, 4)], v); break; }
  case V_CTRL: { int n = rd_range(r, 1, 6); for (int i = 0; i < n; i++) { out[i] = (char)(1 + rd_below(r, 31)); } out[n] = 0; break; }
  case V_LIST: snprintf(out, cap, "%s", lists[rd_below(r, sizeof lists / sizeof lists[0])]);
    /* list syntax in a scalar variable is junk; keep it non-numeric so that it is not a (possibly unusable) integer+junk request */
    if (var != 3 && out[0] >= '0' && out[0] <= '9') out[0] = 'q';
    break;
  }
  *kind_out = kind;
}

static int known(const char * id) { const char * k = getenv("MT_KNOWN"); return k && strstr(k, id); }

void scen_c15_env(mt_case * c) {
  rd_t * r = &c->prog;
  static const char * vars[] = { "MYTH_NUM_WORKERS", "MYTH_DEF_STKSIZE", "MYTH_BIND_WORKERS", "MYTH_CPU_LIST", "MYTH_CHILD_FIRST", "MYTH_DEF_GUARDSIZE" };
  char val[6][64]; int kind[6]; long clean[6];
  mt_desc("C15 environment:");
  for (int v = 0; v < 6; v++) {
    make_value(r, v, val[v], sizeof val[v], &kind[v], &clean[v]);
    if (v == 3 && kind[v] != V_UNSET && rd_below(r, 2)) { snprintf(val[v], sizeof val[v], "%s", lists[rd_below(r, sizeof lists / sizeof lists[0])]); kind[v] = V_LIST; }
    if (v == 1 && kind[v] == V_NEG && known("F5")) { kind[v] = V_UNSET; mt_known("F5"); }
    if (kind[v] == V_UNSET) unsetenv(vars[v]); else setenv(vars[v], val[v], 1);
    mt_desc(" %s=", vars[v]);
    if (kind[v] == V_UNSET) mt_desc("<unset>"); else { mt_desc("\""); for (char * p = val[v]; *p; p++) { if ((unsigned char)*p < 32 || (unsigned char)*p > 126) mt_desc("\\x%02x", (unsigned char)*p); else mt_desc("%c", *p); } mt_desc("\""); }
    mt_label(vkname[kind[v]]);
  }
  int implicit = (int)rd_below(r, 2);
  mt_desc("\n init: %s\n", implicit ? "implicit (first use)" : "myth_init()");
  mt_hash(c->prog.p, c->prog.pos);
  mt_flush_early();
  int ncpu = (int)sysconf(_SC_NPROCESSORS_ONLN);
  int base = count_os_threads();
  if (!implicit) myth_init();
  else { myth_thread_t t = myth_create(leaf, 0); Z0(myth_join(t, 0)); }
  int W = myth_get_num_workers(); gW = W;
  /* expected worker count */
  int k0 = kind[0];
  if (k0 == V_CLEAN) { if (W != (int)clean[0]) mt_fail("MYTH_NUM_WORKERS=%s: running with %d workers", val[0], W); }
  else if (k0 == V_UNSET || k0 == V_EMPTY || k0 == V_ZERO || k0 == V_NEG || k0 == V_JUNK || k0 == V_CTRL) {
    /* junk that happens to start with digits (e.g. "4,4", "4.5", "1e3", "0x10") is integer+junk: not judged */
    int starts_digit = 0; { const char * p = val[0]; while (*p == ' ' || *p == '\t' || *p == '\n' || *p == '+' || *p == '-') p++; starts_digit = (*p >= '1' && *p <= '9'); }
    if (!starts_digit && W != ncpu) mt_fail("MYTH_NUM_WORKERS=%s (not a positive number): running with %d workers, expected the CPU count %d", kind[0] == V_UNSET ? "<unset>" : val[0], W, ncpu);
  }
  if (W < 1) mt_fail("myth_get_num_workers() == %d", W);
  if (myth_get_worker_num() < 0 || myth_get_worker_num() >= W) mt_fail("main thread reports worker %d of %d", myth_get_worker_num(), W);
  myth_thread_t th[130]; int nt = 2 * W; if (nt > 128) nt = 128;
  for (int i = 0; i < nt; i++) th[i] = myth_create(leaf, (void *)(intptr_t)(i % 3));
  for (int i = 0; i < nt; i++) Z0(myth_join(th[i], 0));
  myth_thread_t t = myth_create(node, (void *)3L); Z0(myth_join(t, 0));
  if (bad_rank) mt_fail("a thread observed worker index %d outside [0,%d)", bad_rank - 1000, W);
  int during = count_os_threads();
  myth_fini();
  int after = settle_os_threads(base);
  if (during != base + W - 1) mt_fail("%d OS threads while running with %d workers (baseline %d)", during, W, base);
  if (after != base) mt_fail("%d OS threads left after myth_fini (baseline %d): workers did not stop", after, base);
  mt_stat("workers", W); mt_stat("ncpu", ncpu);
  int malformed = 0; for (int v = 0; v < 6; v++) if (kind[v] >= V_ZERO) malformed++;
  mt_nontrivial(malformed >= 1);
}

/* ------------------------------ (b) init / fini histories ------------------------------ */
static volatile int racer_won[2], racer_back[2]; static int cyc_work_depth; static pthread_barrier_t race_bar;
static int cyc_reinit; static long n_reinit;
static int do_work_and_fini(int expectW, int * fini_rank) {
  int W = myth_get_num_workers(); gW = W;
  if (expectW > 0 && W != expectW) mt_fail("initialised with n_workers=%d but myth_get_num_workers() == %d", expectW, W);
  if (cyc_reinit) {
    /* the library is running: further initialisation calls, with other settings or none, are no-ops */
    myth_globalattr_t b; myth_globalattr_init(&b);
    myth_globalattr_set_n_workers(&b, (size_t)(cyc_reinit == 1 ? (W > 1 ? W - 1 : 2) : W + 3)); myth_globalattr_set_bind_workers(&b, 0);
    myth_init_ex(&b); if (cyc_reinit == 2) myth_init();
    n_reinit++;
    int W2 = myth_get_num_workers();
    if (W2 != W) mt_fail("a second myth_init_ex (asking for %d workers) while the library runs with %d workers changed myth_get_num_workers() to %d: initialisation is not exactly once", cyc_reinit == 1 ? (W > 1 ? W - 1 : 2) : W + 3, W, W2);
  }
  myth_thread_t t = myth_create(node, (void *)(long)cyc_work_depth); Z0(myth_join(t, 0));
  /* block a few times so that the main thread is resumed by whichever worker finishes its child */
  for (int i = 0; i < 4; i++) { myth_thread_t c = myth_create(leaf, (void *)3L); myth_yield(); Z0(myth_join(c, 0)); }
  if (bad_rank) mt_fail("a thread observed worker index %d outside [0,%d)", bad_rank - 1000, W);
  *fini_rank = myth_get_worker_num();
  myth_fini();
  return W;
}
static void * racer(void * a) {
  int me = (int)(intptr_t)a;
  pthread_barrier_wait(&race_bar);          /* both call myth_init at (nearly) the same time */
  myth_init();
  racer_back[me] = 1;
  if (myth_is_myth_worker()) {
    racer_won[me] = 1;
    /* do not finalise before the other caller has returned from its myth_init: otherwise it would
       legitimately start a second initialisation of its own */
    while (!racer_back[1 - me]) sched_yield();
    int fr; do_work_and_fini(0, &fr);
  }
  return 0;
}

void scen_c15_hist(mt_case * c) {
  rd_t * r = &c->prog;
  int ncyc = rd_range(r, 1, c->tier ? 200 : 20);
  unsetenv("MYTH_NUM_WORKERS");
  int base = count_os_threads(), ncpu = (int)sysconf(_SC_NPROCESSORS_ONLN);
  int kinds[4] = { 0 }, fini_elsewhere = 0, prevW = 0;
  mt_desc("C15 init/fini history, %d cycles:", ncyc);
  struct { int kind, w, stk, depth; } cy[200];
  for (int i = 0; i < ncyc; i++) {
    cy[i].kind = (int)rd_below(r, 4); cy[i].w = rd_range(r, 1, 16); cy[i].stk = (int)rd_below(r, 4); cy[i].depth = (int)rd_below(r, 4);
    if (i < 24) mt_desc(" %s(w%d,s%d)", (const char *[]){ "init_ex", "init", "implicit", "race" }[cy[i].kind], cy[i].w, cy[i].stk);
  }
  mt_desc("\n");
  mt_hash(c->prog.p, c->prog.pos);
  mt_flush_early();
  for (int i = 0; i < ncyc; i++) {
    int kind = cy[i].kind, fr = 0, W = 0; cyc_work_depth = cy[i].depth; bad_rank = 0; gW = 1 << 30;
    cyc_reinit = ((cy[i].w + cy[i].stk + i) % 3 == 0) ? 1 + ((cy[i].w >> 1) & 1) : 0;
    kinds[kind]++;
    if (kind == 0) {
      myth_globalattr_t a; myth_globalattr_init(&a);
      myth_globalattr_set_n_workers(&a, (size_t)cy[i].w); myth_globalattr_set_bind_workers(&a, 0);
      myth_globalattr_set_stacksize(&a, (size_t[]){ 131072, 65536, 262144, 32768 }[cy[i].stk]);
      myth_init_ex(&a);
      W = do_work_and_fini(cy[i].w, &fr);
    } else if (kind == 1) {
      myth_init();
      W = do_work_and_fini(prevW ? 0 : ncpu, &fr);
    } else if (kind == 2) {
      myth_thread_t t = myth_create(leaf, 0); Z0(myth_join(t, 0));      /* implicit initialisation on first use */
      W = do_work_and_fini(prevW ? 0 : ncpu, &fr);
    } else {
      pthread_t p[2]; racer_won[0] = racer_won[1] = 0; racer_back[0] = racer_back[1] = 0; pthread_barrier_init(&race_bar, 0, 2);
      for (int k = 0; k < 2; k++) pthread_create(&p[k], 0, racer, (void *)(intptr_t)k);
      for (int k = 0; k < 2; k++) pthread_join(p[k], 0);
      if (racer_won[0] + racer_won[1] != 1) mt_fail("cycle %d: %d of 2 racing initialisers became the worker (initialisation not exactly once)", i, racer_won[0] + racer_won[1]);
      W = prevW;
    }
    if (fr != 0) fini_elsewhere++;
    if (W) prevW = W;
    int after = settle_os_threads(base);
    if (after != base) mt_fail("cycle %d (%s): %d OS threads after myth_fini, baseline %d", i, (const char *[]){ "init_ex", "init", "implicit", "race" }[kind], after, base);
    if (myth_is_myth_worker() && 0) mt_fail("still a worker after fini");
  }
  mt_stat("cycles", ncyc); mt_stat("fini_from_other_worker", fini_elsewhere);
  for (int k = 0; k < 4; k++) if (kinds[k]) mt_label((const char *[]){ "init_ex", "init_default", "implicit_init", "racing_init" }[k]);
  if (fini_elsewhere) mt_label("fini_after_migration"); if (n_reinit) mt_label("redundant_init_while_running");
  mt_nontrivial(ncyc >= 2 && (fini_elsewhere > 0 || kinds[3] > 0));
}
