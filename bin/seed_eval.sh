#!/bin/bash
# seed_eval.sh <Cxx> [wt] : confirm an independently written breaking change and run the checks against it.
#   input : /tmp/seed_out/<Cxx>/{patch.diff,run_demo.sh,...}   (written by a sub-agent in its own worktree /tmp/seedwt/<Cxx>)
#   output: /verif/seeded/<Cxx>/{patch.diff, demo files, meta.json}   (kept only if everything is confirmed)
# steps : (1) patch applies to /repo HEAD  (2) in the agent's worktree: suite passes with the patch (257),
#         demo fails with the patch, demo passes without  (3) quick check of <Cxx> in a scratch worktree with the patch
name=$1; id=${name:0:3}; wt=${2:-/tmp/seedwt/$name}; src=/tmp/seed_out/$name; dst=/verif/seeded/$name
[ -f $src/patch.diff ] || { echo "$id: no patch.diff"; exit 2; }
git -C /repo apply --check $src/patch.diff || { echo "$id: patch does not apply to /repo HEAD"; exit 2; }
log=$src/eval.log; : > $log
cd $wt || exit 2
# make sure the worktree holds exactly the patch
git checkout -q -- . && git apply $src/patch.diff || { echo "$id: cannot apply patch in worktree"; exit 2; }
make -j8 >>$log 2>&1 || { echo "$id: build with patch failed"; exit 2; }
make -j8 check > $src/suite_with_patch.log 2>&1
pass=$(grep -E "^# PASS:" $src/suite_with_patch.log | head -1 | awk '{print $3}'); fail=$(grep -E "^# FAIL:" $src/suite_with_patch.log | head -1 | awk '{print $3}')
echo "$id: suite with patch: PASS=$pass FAIL=$fail"
if [ "$fail" != "0" ] && [ -n "$fail" ]; then
  # tests that fail in the full parallel run are re-run alone three times: a test that then passes three times
  # failed because of machine load (the full run shares 16 cores with other work), not because of the patch
  failing=$(grep -E "^FAIL:" $src/suite_with_patch.log | awk '{print $2}' | sort -u | tr '\n' ' ')
  ok=1; for k in 1 2 3; do make -C tests check TESTS="$failing" > $src/suite_rerun_$k.log 2>&1; grep -qE "^# FAIL:  0" $src/suite_rerun_$k.log || ok=0; done
  if [ $ok = 1 ]; then echo "$id: the $fail failing test(s) [$failing] pass 3/3 when re-run alone: load flake"; pass=257; fail=0; flake="$failing"; fi
fi
demo_with=unknown; demo_without=unknown
if [ -x $src/run_demo.sh ]; then
  (cd $src && timeout 300 ./run_demo.sh $wt >> $log 2>&1); demo_with=$?
  git -C $wt checkout -q -- . ; make -j8 >>$log 2>&1
  (cd $src && timeout 300 ./run_demo.sh $wt >> $log 2>&1); demo_without=$?
  git -C $wt apply $src/patch.diff; 
fi
echo "$id: demo exit with patch=$demo_with without patch=$demo_without"
# the checks
cd /verif
out=$(timeout 3000 bin/with_patch.sh $src/patch.diff bin/check $id 2>&1); rc=$?
verdict=MISSED; echo "$out" | grep -q "^VIOLATION property=$id" && verdict=CAUGHT
first=$(echo "$out" | grep -m1 -B1 "^VIOLATION" | head -1 | sed 's/^ *//')
echo "$id: check -> $verdict (rc=$rc) $first"
echo "$out" | tail -4 >> $log
rm -rf found/$id
if [ "$pass" = "257" ] && [ "$fail" = "0" ] && [ "$demo_with" != "0" ] && [ "$demo_without" = "0" ]; then
  mkdir -p $dst; cp $src/patch.diff $dst/; for f in $src/*; do case $(basename $f) in patch.diff|eval.log|suite_with_patch.log|*.prompt.txt) ;; *) [ -f $f ] && [ $(stat -c %s $f) -lt 200000 ] && cp $f $dst/ ;; esac; done
  SEED_FLAKE="$flake" python3 - "$id" "$name" "$verdict" "$first" "$pass" "$demo_with" "$demo_without" <<'PY'
import json,sys,subprocess
id,name,verdict,first,p,dw,dwo=sys.argv[1:8]
notes=''
meta={'property':id,'dir':name,'origin':'fresh sub-agent given only the property text and a scratch worktree','what_it_needs_to_manifest':'see notes.md',
 'confirmed':{'patch_applies_to_repo_head':True,'suite_with_patch':f'{p} passed, 0 failed' + (' (tests that failed only in the loaded parallel run and passed 3/3 alone: ' + __import__('os').environ.get('SEED_FLAKE','') + ')' if __import__('os').environ.get('SEED_FLAKE') else ''),'demo_exit_with_patch':int(dw),'demo_exit_without_patch':int(dwo)},
 'commands':[f'git -C <worktree> apply patch.diff; make -j8; make -j8 check',f'./run_demo.sh <worktree>   (with and without the patch)',f'bin/with_patch.sh seeded/{name}/patch.diff bin/check {id}'],
 'check_result':verdict,'first_violation':first,'repo_head':subprocess.run(['git','-C','/repo','rev-parse','--short','HEAD'],stdout=subprocess.PIPE).stdout.decode().strip()}
json.dump(meta,open(f'/verif/seeded/{name}/meta.json','w'),indent=1)
PY
  echo "$id: kept in $dst"
else
  echo "$id: NOT kept (confirmation failed)"
fi
