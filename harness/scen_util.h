/* scen_util.h -- helpers shared by the library scenarios */
#ifndef SCEN_UTIL_H_
#define SCEN_UTIL_H_
#include "common.h"
#include "myth/myth.h"
#include "myth_verif.h"

#define MAXT 512

/* user-level hook ids (>= 1000) */
enum { UP_OP = 1000, US_GATE = 1001, US_WAITDET = 1002, UP_BODY = 1003 };

/* occupancy witness of a lock */
typedef struct { volatile int in_cs; } witness_t;
static inline void wit_enter(witness_t * w, const char * what) {
  int o = __sync_fetch_and_add(&w->in_cs, 1);
  if (o != 0) mt_fail("mutual exclusion violated: %s entered while occupancy=%d", what, o);
}
static inline void wit_leave(witness_t * w, const char * what) {
  int o = __sync_fetch_and_sub(&w->in_cs, 1);
  if (o != 1) mt_fail("mutual exclusion violated: %s leaving with occupancy=%d", what, o);
}

static inline void op_done(void) { mv_progress(); mv_point(UP_OP); }

/* optional yields decoded from the program */
static inline void do_yields(int n) { for (int i = 0; i < n; i++) { myth_yield(); mv_progress(); } }

#define HIT(id) (mv_hits[(id)])
#define SWHIT(id) (mv_switch_hits[(id)])

/* a call that is successful by construction must say so: these functions are documented to return zero on success */
#define Z0(call) do { int z0_ = (call); if (z0_ != 0) mt_fail("%s returned %d although it succeeded (documented: zero on success)", #call, z0_); } while (0)

/* thread creation in a generated flavour (NULL attribute / attribute object with default, parent-first, custom stack),
   optionally with a deferred cancellation request pending in the new thread; returns what myth_create_ex returned */
int mt_create(myth_thread_t * id, myth_func_t fn, void * arg);
/* custom data (work-stealing hint) of a thread attribute: attach a pattern of `size` bytes; verify it from inside the thread */
void mt_cd_attach(myth_thread_attr_t * at, size_t size);
void mt_cd_verify(size_t size, const char * when);

#endif
