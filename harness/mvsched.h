/* mvsched -- controlled scheduler ("token scheduler") for MassiveThreads workers
 * and for plain pthread participants of the unit harnesses.
 *
 * Exactly one participant holds the token and runs; the others are parked on futex
 * words.  The holder gives the token away only inside a hook:
 *   point(id): a place between two shared accesses; the schedule (bytes, then a seeded
 *              PRNG tail) decides whether to switch and to whom;
 *   spin(id):  the caller cannot proceed until somebody else acts: it must hand over
 *              (round robin).
 * A run is a pure function of (program, schedule bytes, seed).
 */
#ifndef MVSCHED_H_
#define MVSCHED_H_
#include <stdint.h>
#include <stddef.h>
#include <stdarg.h>

#define MV_MAXP 64
#define MV_NIDS 2048

enum { MV_OFF = 0, MV_CONTROLLED = 1, MV_NOISE = 2 };

/* verdict codes (shared with the drivers) */
enum {
  MVV_OK = 0,
  MVV_ORACLE = 1,      /* an oracle / model comparison failed            */
  MVV_DEADLOCK = 2,    /* all workers idle, all queues empty, program not finished */
  MVV_STUCK = 3,       /* every participant spins, no progress            */
  MVV_INCONCLUSIVE = 4,/* step budget / wall clock exceeded               */
  MVV_CRASH = 5,       /* signal, assertion, sanitizer (set by the fork server) */
  MVV_REJECT = 6,      /* case excluded (precondition / known finding)    */
};

typedef struct mv_config {
  int mode;
  int nparts;
  const uint8_t * sched;
  size_t sched_len;
  uint32_t seed;
  int tail_preempt;      /* 0..255: P(switch)/256 at a run boundary once the bytes are exhausted */
  long step_budget;      /* max points+spins; beyond: inconclusive */
  int noise_level;       /* NOISE mode: 0..255 */
  int burst_id;          /* spin id whose loop (one without inner points) polls burst_len times in place ... */
  int burst_ids[8];      /* ... further ids with the same treatment (0 terminated) ... */
  long burst_len;        /* ... before it starts handing the token on: a long window in which the awaited event does not happen */
} mv_config;

void mv_install(void);                    /* install the library hooks (MYTH_VERIF build) */
void mv_enable(const mv_config * cfg);    /* caller = worker 0 = first holder; waits for W-1 parked workers */
void mv_disable(void);
int  mv_enabled(void);

/* unit harness participants (plain pthreads) */
void mv_unit_begin(const mv_config * cfg);
void mv_unit_register(int pid);           /* called by each participant thread; pid 0 starts */
void mv_unit_exit(int pid);               /* participant finished; token goes to a live one */

/* called by harness code (interpreters) */
void mv_point(int id);
void mv_spin(int id);
void mv_progress(void);                   /* an interpreter-level operation completed */
void mv_finished(void);                   /* the program's root completed: no hang verdict after this */
int  mv_me(void);                         /* participant id of the calling OS thread (-1 if none) */
uint64_t mv_now(void);                    /* logical time: number of hook events so far */

/* verdict: prints the report and terminates the process */
void mv_verdict(int code, const char * fmt, ...) __attribute__((noreturn, format(printf,2,3)));
void mv_set_report_fn(void (*fn)(int code, const char * msg)); /* extra report lines, then exit */

/* hooks for harnesses */
void mv_set_quiescent_fn(int (*fn)(void));      /* returns 1 iff all run queues are empty */
void mv_set_point_observer(void (*fn)(int id, int me)); /* called on every point before the decision */
void mv_set_spin_observer(void (*fn)(int id, int me));    /* called at every spin hook of a joined participant, before the token moves */
void mv_set_fence_observer(void (*fn)(int kind, int me));
void mv_set_rng_reseed(int on);

extern unsigned long mv_npoints, mv_nspins, mv_nswitch, mv_hash;
extern unsigned long mv_hits[MV_NIDS];    /* hook events per id */
extern unsigned long mv_switch_hits[MV_NIDS]; /* token hand-overs performed at each id */
extern int mv_result_fd;                  /* where the report goes (default 1) */

#endif
