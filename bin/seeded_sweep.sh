#!/bin/bash
# seeded_sweep.sh : re-run the quick check of its property against every kept seeded change (scratch worktrees,
# never /repo) and record the outcome in seeded/<name>/meta.json ("recheck") -- run after generator / oracle changes.
cd /verif
for d in seeded/*/patch.diff; do
  name=$(basename $(dirname $d)); prop=${name:0:3}
  git -C /repo apply --check $(readlink -f $d) 2>/dev/null || { echo "$name DOES-NOT-APPLY"; continue; }
  t0=$(date +%s)
  o=$(VERIF_SEED=${VERIF_SEED:-1} timeout 1500 bin/with_patch.sh $d bin/check $prop 2>&1); rc=$?
  t1=$(date +%s)
  if [ $rc -eq 1 ] && echo "$o" | grep -q "^VIOLATION property=$prop"; then v=CAUGHT; else v="MISSED(rc=$rc)"; fi
  first=$(echo "$o" | grep -m1 -B1 "^VIOLATION" | head -1 | sed 's/^ *//')
  echo "$name $v $((t1-t0))s $first" | cut -c1-200
  python3 - "$name" "$v" "$first" <<'PY'
import json,sys,time
name,v,first=sys.argv[1:4]
p=f'/verif/seeded/{name}/meta.json'; d=json.load(open(p)); d['recheck']={'result':v,'first_violation':first,'when':time.strftime('%Y-%m-%d %H:%M UTC', time.gmtime())}
if v=='CAUGHT': d['check_result']='CAUGHT'
else: d['check_result']='MISSED'
json.dump(d,open(p,'w'),indent=1)
PY
  rm -rf found/$prop
done
