#include "common.h"
void scen_c01(mt_case *);
void scen_c02_unit(mt_case *);
void scen_c02_lib(mt_case *);
void scen_c03(mt_case *);
void scen_c04(mt_case *);
void scen_c05(mt_case *);
void scen_c06(mt_case *);
void scen_c07(mt_case *);
void scen_c08(mt_case *);
void scen_c09(mt_case *);
void scen_c10(mt_case *);
void scen_c11(mt_case *);
void scen_c10_conc(mt_case *);
void scen_c12(mt_case *);
void scen_c13(mt_case *);
void scen_c14(mt_case *);
void scen_c15_env(mt_case *);
void scen_c15_hist(mt_case *);
void scen_c16(mt_case *);
void scen_c17(mt_case *);
void scen_c17_mtbb(mt_case *);
void scen_c18(mt_case *);
void scen_c19(mt_case *);
void scen_c20(mt_case *);
const mt_scenario mt_scenarios[] = {
  { 1, "C01 create/join", scen_c01 },
  { 2, "C02 queue unit harness", scen_c02_unit },
  { 3, "C03 registers and stack", scen_c03 },
  { 4, "C04 mutex", scen_c04 },
  { 5, "C05 condition variables", scen_c05 },
  { 6, "C06 barrier", scen_c06 },
  { 7, "C07 join counter", scen_c07 },
  { 8, "C08 uncond", scen_c08 },
  { 9, "C09 felock", scen_c09 },
  { 10, "C10 thread-specific data", scen_c10 },
  { 11, "C11 destructors", scen_c11 },
  { 30, "C10 concurrent key allocation", scen_c10_conc },
  { 12, "C12 stacks/records lifetime", scen_c12 },
  { 13, "C13 reaping", scen_c13 },
  { 14, "C14 once", scen_c14 },
  { 15, "C15 environment", scen_c15_env },
  { 35, "C15 init/fini histories", scen_c15_hist },
  { 16, "C16 pthread differential", scen_c16 },
  { 17, "C17 bulk fork-join (C API)", scen_c17 },
  { 27, "C17 mtbb task_group / parallel_for", scen_c17_mtbb },
  { 18, "C18 DAG recorder totals", scen_c18 },
  { 19, "C19 DAG files", scen_c19 },
  { 20, "C20 sleep and timed waits", scen_c20 },
  { 22, "C02 library with custom steal function", scen_c02_lib },
};
const int mt_n_scenarios = sizeof mt_scenarios / sizeof mt_scenarios[0];
