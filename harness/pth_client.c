/* pth_client.c -- C16: a generated, determinate POSIX-threads program.
 *
 * Usage: pth_client CASEFILE
 * The program is decoded from the case bytes and executed through the pthread API only; its
 * canonical result goes to stdout.  The same source is built
 *   plain  (system libpthread; also run under LD_PRELOAD=libmyth-dl.so),
 *   ld     (linked with libmyth-ld.a and @myth-ld.opts; MYTH_WRAP_PTHREAD=0/1 selects the path).
 * When the MassiveThreads hooks are linked in (ld build) and wrapping is on, the run is driven by the
 * token scheduler with the case's schedule bytes; otherwise it runs freely.
 *
 * API subset: create/join/detach/exit/self/equal with and without attribute objects (stack size,
 * detach state), default mutexes incl. PTHREAD_MUTEX_INITIALIZER first used by several threads at
 * once, trylock, condition variables, barriers, spin locks, once, keys with destructors (which
 * ignore NULL), sched_yield, usleep.
 */
#define _GNU_SOURCE
#include <pthread.h>
#include <sched.h>
#include <stdio.h>
#include <stdlib.h>
#include <string.h>
#include <stdint.h>
#include <unistd.h>
#include <errno.h>
#include <time.h>
#include "mvsched.h"

typedef struct { size_t stacksize, guardsize; int n_workers, bind_workers, child_first, initialized; } myth_globalattr_like_t;
extern int myth_init_ex(void * attr) __attribute__((weak));
extern int myth_globalattr_init(void * attr) __attribute__((weak));
extern int myth_globalattr_set_n_workers(void * attr, size_t n) __attribute__((weak));
extern int myth_globalattr_set_bind_workers(void * attr, int b) __attribute__((weak));
extern int (*volatile myth_verif_clock_fn)(struct timespec *) __attribute__((weak));
/* controlled runs use a virtual clock (100us per reading) so that usleep polls a bounded number of times */
static volatile long vclk;
static int vclock(struct timespec * ts) { long r = __sync_add_and_fetch(&vclk, 1); ts->tv_sec = 1000 + r / 10000; ts->tv_nsec = (r % 10000) * 100000L; mv_progress(); return 0; }

typedef struct { const uint8_t * p; size_t n, pos; } rd_t;
static unsigned rd_u8(rd_t * r) { return r->pos < r->n ? r->p[r->pos++] : 0; }
static unsigned rd_below(rd_t * r, unsigned n) { return n <= 1 ? 0 : rd_u8(r) % n; }
static int rd_range(rd_t * r, int lo, int hi) { return lo + (int)rd_below(r, (unsigned)(hi - lo + 1)); }

enum { P_COUNTER, P_TRYCOUNTER, P_BARRIER, P_TURNSTILE, P_SPIN, P_ONCE, P_KEYSET, P_KEYGET, P_CHILD, P_YIELD, P_SLEEP, P_SELF, P_GATE, P_N };
typedef struct { int kind, a, b, v; } ph_t;   /* v: variant nibble (which of the equivalent API spellings the phase uses) */
#define MAXPH 20
static int T, nph; static ph_t ph[MAXPH];
static int thr_attr[8], thr_exit[8];

static pthread_mutex_t gm[3] = { PTHREAD_MUTEX_INITIALIZER, PTHREAD_MUTEX_INITIALIZER, PTHREAD_MUTEX_INITIALIZER };
static pthread_mutex_t dynm[3];   /* initialised with pthread_mutex_init and a default attribute object; protect the same counters in other phases never concurrently: see P_COUNTER */
static pthread_cond_t gate_cv[MAXPH], tcv[8]; static long rc_flags;
static long counter[3]; static int dyn_for[3], ts_signal;
#define CM(a) (dyn_for[a] ? &dynm[a] : &gm[a])
static pthread_mutex_t cm; static pthread_cond_t cv; static int turn; static int gate_open[MAXPH]; static int gate_arrived[MAXPH];
static pthread_barrier_t bar; static long serial_total;
static pthread_spinlock_t sp; static long spin_counter;
static pthread_once_t once_ctl[3] = { PTHREAD_ONCE_INIT, PTHREAD_ONCE_INIT, PTHREAD_ONCE_INIT }; static volatile long once_cnt[3];
static pthread_key_t keys[4]; static int key_has_dtor[4];
static pthread_mutex_t logm = PTHREAD_MUTEX_INITIALIZER; static long dlog[256]; static int ndlog;
static long thread_result[8], child_sum[8], self_ok[8], key_ok[8], bad_flags;
static pthread_t tids[8], selfs[8];   /* tids: written by the creator; selfs: written by the thread itself */
static pthread_mutex_t dm = PTHREAD_MUTEX_INITIALIZER; static pthread_cond_t dcv = PTHREAD_COND_INITIALIZER; static int detached_pending;

#define RC(call) do { if ((call) != 0) rc_flags |= 256; } while (0)
static void once0(void) { once_cnt[0]++; } static void once1(void) { sched_yield(); once_cnt[1]++; } static void once2(void) { once_cnt[2]++; }
static void (* const once_fn[3])(void) = { once0, once1, once2 };
static pthread_key_t padkeys[64]; static int kpad;
static void dtor_pad(void * v) { if (!v) return; pthread_mutex_lock(&logm); if (ndlog < 256) dlog[ndlog++] = -(long)(intptr_t)v; pthread_mutex_unlock(&logm); }
static void dtor(void * v) { if (!v) return; pthread_mutex_lock(&logm); if (ndlog < 256) dlog[ndlog++] = (long)(intptr_t)v; pthread_mutex_unlock(&logm); }

static void * child(void * a) {
  long v = (long)(intptr_t)a;
  for (int i = 0; i < (int)(v & 3); i++) sched_yield();
  if (v & 4) pthread_exit((void *)(intptr_t)(v * 3 + 1));
  return (void *)(intptr_t)(v * 3 + 1);
}
static void * dchild(void * a) {
  long v = (long)(intptr_t)a;
  for (int i = 0; i < (int)(v & 3); i++) sched_yield();
  pthread_mutex_lock(&dm); child_sum[(v >> 8) & 7] += v * 5; detached_pending--; RC(pthread_cond_broadcast(&dcv)); pthread_mutex_unlock(&dm);
  return 0;
}

static void * worker(void * arg) {
  int me = (int)(intptr_t)arg;
  selfs[me] = pthread_self();
  for (int i = 0; i < nph; i++) {
    ph_t * p = &ph[i];
    switch (p->kind) {
    case P_COUNTER: for (int k = 0; k < p->b; k++) { if (pthread_mutex_lock(CM(p->a))) rc_flags |= 128; long t = counter[p->a]; if (k & 1) sched_yield(); counter[p->a] = t + 1; if (pthread_mutex_unlock(CM(p->a))) rc_flags |= 128; } break;
    case P_TRYCOUNTER: for (int k = 0; k < p->b; k++) { for (;;) { int tr = pthread_mutex_trylock(CM(p->a)); if (tr == 0) break; if (tr != EBUSY) rc_flags |= 512; sched_yield(); } if (k == 0 && pthread_mutex_trylock(CM(p->a)) != EBUSY) rc_flags |= 1024; /* held by the caller: busy */ counter[p->a]++; pthread_mutex_unlock(CM(p->a)); } break;
    case P_BARRIER: { int r = pthread_barrier_wait(&bar); if (r == PTHREAD_BARRIER_SERIAL_THREAD) { pthread_mutex_lock(&cm); serial_total++; pthread_mutex_unlock(&cm); } else if (r != 0) bad_flags |= 1; break; }
    case P_TURNSTILE:
      pthread_mutex_lock(&cm);
      if (ts_signal) {   /* one condition variable per thread, the next in line is signalled (the same spelling in every turnstile phase of a program: the turn variable is shared by all of them) */
        while (turn != me) RC(pthread_cond_wait(&tcv[me], &cm));
        turn = (me + 1) % T; RC(pthread_cond_signal(&tcv[turn]));
      } else {
        while (turn != me) RC(pthread_cond_wait(&cv, &cm));
        turn = (me + 1) % T; RC(pthread_cond_broadcast(&cv));
      }
      pthread_mutex_unlock(&cm);
      break;
    case P_GATE:       /* last arriver opens: one broadcast on the shared condition variable, or T-1 signals on the gate's own */
      pthread_mutex_lock(&cm);
      if (p->v & 1) {
        if (++gate_arrived[i] == T) { gate_open[i] = 1; for (int k = 0; k < T - 1; k++) RC(pthread_cond_signal(&gate_cv[i])); }
        else while (!gate_open[i]) RC(pthread_cond_wait(&gate_cv[i], &cm));
      } else {
        if (++gate_arrived[i] == T) { gate_open[i] = 1; RC(pthread_cond_broadcast(&cv)); }
        else while (!gate_open[i]) RC(pthread_cond_wait(&cv, &cm));
      }
      pthread_mutex_unlock(&cm);
      break;
    case P_SPIN: for (int k = 0; k < p->b; k++) { if (p->v & 1) { for (;;) { int tr = pthread_spin_trylock(&sp); if (tr == 0) break; if (tr != EBUSY) rc_flags |= 512; sched_yield(); } if (k == 0 && pthread_spin_trylock(&sp) != EBUSY) rc_flags |= 1024; } else if (pthread_spin_lock(&sp)) rc_flags |= 64; spin_counter++; if (pthread_spin_unlock(&sp)) rc_flags |= 64; } break;
    case P_ONCE: RC(pthread_once(&once_ctl[p->a], once_fn[p->a])); if (once_cnt[p->a] != 1) bad_flags |= 2; break;
    case P_KEYSET: RC(pthread_setspecific(keys[p->a], (void *)(intptr_t)(1000 + me * 16 + p->a))); break;
    case P_KEYGET: { void * v = pthread_getspecific(keys[p->a]); if (v && v != (void *)(intptr_t)(1000 + me * 16 + p->a)) key_ok[me]++; break; }
    case P_CHILD: {
      pthread_t t; pthread_attr_t at; pthread_attr_t * ap = 0; long v = (long)(p->b & 7) | ((long)me << 8);
      int mode = p->a;     /* 0 no attr, 1 attr default, 2 attr + stack size, 3 attr detached */
      if (mode) { RC(pthread_attr_init(&at)); ap = &at; if (mode == 2) pthread_attr_setstacksize(&at, 65536 * (size_t)(1 + (p->b & 3))); if (mode == 3) RC(pthread_attr_setdetachstate(&at, PTHREAD_CREATE_DETACHED)); }
      if (mode == 2) { size_t got = 0; if (pthread_attr_getstacksize(&at, &got) || got != 65536 * (size_t)(1 + (p->b & 3))) rc_flags |= 1; }
      if (mode) { int ds = -1; if (pthread_attr_getdetachstate(&at, &ds) || ds != (mode == 3 ? PTHREAD_CREATE_DETACHED : PTHREAD_CREATE_JOINABLE)) rc_flags |= 2; }
      if (mode != 3 && (p->v & 3) == 3) {   /* created joinable, detached afterwards by its creator (before, while or after it runs) */
        pthread_mutex_lock(&dm); detached_pending++; pthread_mutex_unlock(&dm);
        if (pthread_create(&t, ap, dchild, (void *)(intptr_t)v)) bad_flags |= 4;
        if (p->b & 8) sched_yield();
        if (pthread_detach(t)) rc_flags |= 4;
      } else
      if (mode == 3) {
        pthread_mutex_lock(&dm); detached_pending++; pthread_mutex_unlock(&dm);
        if (pthread_create(&t, ap, dchild, (void *)(intptr_t)v)) bad_flags |= 4;
      } else {
        void * rv = 0;
        if (pthread_create(&t, ap, child, (void *)(intptr_t)v)) bad_flags |= 4;
        if (p->b & 8) sched_yield();
        if (pthread_join(t, &rv)) bad_flags |= 8;
        pthread_mutex_lock(&dm); child_sum[me] += (long)(intptr_t)rv; pthread_mutex_unlock(&dm);   /* a detached child of this thread adds to the same slot, under dm */
      }
      if (ap) RC(pthread_attr_destroy(ap));
      break; }
    case P_YIELD: sched_yield(); break;
    case P_SLEEP:
      if ((p->v & 3) == 1) { struct timespec ts = { 0, 50000L * (1 + p->b) }; if (nanosleep(&ts, 0)) rc_flags |= 8; }
      else if ((p->v & 3) == 2) { struct timespec ts = { 0, 50000L * (1 + p->b) }; if (nanosleep(&ts, &ts)) rc_flags |= 8; }
      else if ((p->v & 3) == 3) { if (sleep(0)) rc_flags |= 8; }
      else if (usleep((useconds_t)(50 * (1 + p->b)))) rc_flags |= 8;
      break;
    case P_SELF:   /* reading tids[me] here would race with the creator's store (POSIX does not order them); the creator's copy is compared after the join */
      if (pthread_equal(pthread_self(), selfs[me])) self_ok[me]++; else self_ok[me] -= 100; break;
    }
    mv_progress();
  }
  if (thr_exit[me]) pthread_exit((void *)(intptr_t)(7000 + me));
  return (void *)(intptr_t)(7000 + me);
}

static int cmp_long(const void * a, const void * b) { long x = *(const long *)a, y = *(const long *)b; return x < y ? -1 : x > y; }

int main(int argc, char ** argv) {
  static uint8_t blob[1 << 16];
  if (argc < 2) { fprintf(stderr, "usage: pth_client CASE\n"); return 2; }
  FILE * f = fopen(argv[1], "rb"); if (!f) { perror(argv[1]); return 2; }
  size_t n = fread(blob, 1, sizeof blob, f); fclose(f);
  if (n < 24 || memcmp(blob, "MVC1", 4)) { fprintf(stderr, "bad case\n"); return 2; }
  uint32_t seed, l1, l2, l3; memcpy(&seed, blob + 8, 4); memcpy(&l1, blob + 12, 4); memcpy(&l2, blob + 16, 4); memcpy(&l3, blob + 20, 4);
  rd_t cfg = { blob + 24, l1, 0 }, r = { blob + 24 + l1, l2, 0 };
  const uint8_t * sched = blob + 24 + l1 + l2;
  int W = 1 + (int)(rd_u8(&cfg) % 8); int tail = (int[]){ 0, 0, 4, 16, 48, 96, 160, 255 }[rd_u8(&cfg) & 7];
  /* decode */
  T = rd_range(&r, 1, 6); nph = rd_range(&r, 1, MAXPH);
  for (int t = 0; t < T; t++) { thr_attr[t] = (int)rd_below(&r, 3); thr_exit[t] = (int)rd_below(&r, 2); }
  { unsigned d = (unsigned)(T * 5 + nph * 3 + thr_attr[0] * 7 + thr_exit[0]); for (int k = 0; k < 3; k++) dyn_for[k] = (int)((d >> k) & 1); ts_signal = (int)((d >> 3) & 1); kpad = (int[]){ 0, 16, 17, 60 }[(d >> 4) & 3]; }
  for (int i = 0; i < nph; i++) {
    unsigned k = rd_below(&r, P_N), a = rd_u8(&r), b = rd_u8(&r);
    ph[i].kind = (int)k; ph[i].a = (int)(a % 3); ph[i].b = (int)(b % 12); ph[i].v = (int)((a >> 4) ^ (b >> 5)) & 15;
    if (k == P_KEYSET || k == P_KEYGET) ph[i].a = (int)(a % 4);
    if (k == P_CHILD) { ph[i].a = (int)(a % 4); ph[i].b = (int)(b & 15); }
  }
  if (getenv("PTH_DESCRIBE")) {
    printf("C16 pthread program: T=%d W=%d phases:", T, W);
    static const char * nm[] = { "counter", "trycounter", "barrier", "turnstile", "spin", "once", "keyset", "keyget", "child", "yield", "sleep", "self", "gate" };
    for (int i = 0; i < nph; i++) printf(" %s(%d,%d;v%d)", nm[ph[i].kind], ph[i].a, ph[i].b, ph[i].v);
    printf("\n turnstile spelling: %s; counters protected by:", ts_signal ? "per-thread condvars + signal" : "one condvar + broadcast"); for (int k = 0; k < 3; k++) printf(" %s", dyn_for[k] ? "mutex_init(attr)" : "static initialiser");
    printf("; %d unrelated keys created before the four in use", kpad);
    printf("\n attrs:"); for (int t = 0; t < T; t++) printf(" %d/%s", thr_attr[t], thr_exit[t] ? "exit" : "ret"); printf("\n");
    return 0;
  }
  /* engine, only when the MassiveThreads build with hooks is linked in and wrapping is on */
  const char * wrap = getenv("MYTH_WRAP_PTHREAD");
  int controlled = (myth_init_ex && myth_globalattr_init && !(wrap && !strcmp(wrap, "0")) && !getenv("PTH_FREE"));
  static mv_config mc;
  if (controlled) {
    myth_globalattr_like_t ga; memset(&ga, 0, sizeof ga);
    mv_result_fd = 2;
    mv_install();
    if (&myth_verif_clock_fn) myth_verif_clock_fn = vclock;
    myth_globalattr_init(&ga); myth_globalattr_set_n_workers(&ga, (size_t)W); myth_globalattr_set_bind_workers(&ga, 0);
    myth_init_ex(&ga);
    mc.mode = MV_CONTROLLED; mc.nparts = W; mc.sched = sched; mc.sched_len = l3; mc.seed = seed; mc.tail_preempt = tail; mc.step_budget = 20000000;
    mv_enable(&mc);
  }
  RC(pthread_mutex_init(&cm, 0)); RC(pthread_cond_init(&cv, 0)); RC(pthread_barrier_init(&bar, 0, (unsigned)T)); RC(pthread_spin_init(&sp, 0));
  { pthread_mutexattr_t ma; pthread_condattr_t ca;
    if (pthread_mutexattr_init(&ma)) rc_flags |= 16; if (pthread_condattr_init(&ca)) rc_flags |= 16;
    for (int k = 0; k < 3; k++) { if (pthread_mutex_init(&dynm[k], &ma)) rc_flags |= 16; }
    for (int k = 0; k < MAXPH; k++) if (pthread_cond_init(&gate_cv[k], k & 1 ? &ca : 0)) rc_flags |= 16;
    for (int k = 0; k < 8; k++) if (pthread_cond_init(&tcv[k], 0)) rc_flags |= 16;
    pthread_mutexattr_destroy(&ma); pthread_condattr_destroy(&ca); }
  /* other keys of the program that these threads never touch, created first: the four keys in use then sit behind
     index 16 / 17 / 60 and the threads' key stores have empty lower parts; their destructors log under another tag */
  for (int k = 0; k < kpad; k++) RC(pthread_key_create(&padkeys[k], k % 3 == 2 ? 0 : dtor_pad));
  for (int k = 0; k < 4; k++) { key_has_dtor[k] = (k != 3); RC(pthread_key_create(&keys[k], key_has_dtor[k] ? dtor : 0)); }
  for (int t = 0; t < T; t++) {
    pthread_attr_t at; pthread_attr_t * ap = 0;
    if (thr_attr[t]) { RC(pthread_attr_init(&at)); ap = &at; if (thr_attr[t] == 2) RC(pthread_attr_setstacksize(&at, 262144)); }
    if (pthread_create(&tids[t], ap, worker, (void *)(intptr_t)t)) { printf("create failed\n"); return 3; }
    if (ap) RC(pthread_attr_destroy(ap));
  }
  for (int t = 0; t < T; t++) { void * rv = 0; if (pthread_join(tids[t], &rv)) bad_flags |= 16; thread_result[t] = (long)(intptr_t)rv; if (!pthread_equal(tids[t], selfs[t])) bad_flags |= 32; for (int u = 0; u < t; u++) if (pthread_equal(tids[t], tids[u]) && 0) bad_flags |= 64; mv_progress(); }
  pthread_mutex_lock(&dm); while (detached_pending > 0) RC(pthread_cond_wait(&dcv, &dm)); pthread_mutex_unlock(&dm);
  /* everything is quiescent: the objects can be destroyed (each call must succeed) */
  { int e = 0;
    e |= pthread_mutex_destroy(&cm); e |= pthread_cond_destroy(&cv); e |= pthread_barrier_destroy(&bar); e |= pthread_spin_destroy(&sp);
    for (int k = 0; k < 3; k++) e |= pthread_mutex_destroy(&dynm[k]);
    for (int k = 0; k < MAXPH; k++) e |= pthread_cond_destroy(&gate_cv[k]);
    for (int k = 0; k < 8; k++) e |= pthread_cond_destroy(&tcv[k]);
    for (int k = 0; k < 4; k++) e |= pthread_key_delete(keys[k]);
    for (int k = 0; k < kpad; k++) e |= pthread_key_delete(padkeys[k]);
    if (e) rc_flags |= 32; }
  if (controlled) { mv_finished(); mv_disable(); }
  /* canonical result */
  printf("counters %ld %ld %ld spin %ld serial %ld once %ld %ld %ld flags %ld\n", counter[0], counter[1], counter[2], spin_counter, serial_total, once_cnt[0], once_cnt[1], once_cnt[2], bad_flags); printf("api return codes / attribute getters: flags %ld\n", rc_flags);
  for (int t = 0; t < T; t++) printf("thread %d result %ld children %ld self %ld key_mismatch %ld\n", t, thread_result[t], child_sum[t], self_ok[t], key_ok[t]);
  qsort(dlog, (size_t)ndlog, sizeof(long), cmp_long);
  printf("destructors %d:", ndlog); for (int i = 0; i < ndlog; i++) printf(" %ld", dlog[i]); printf("\n");
  fflush(stdout);
  _exit(0);
}
