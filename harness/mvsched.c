/* mvsched.c -- see mvsched.h */
#define _GNU_SOURCE
#include <stdio.h>
#include <stdlib.h>
#include <string.h>
#include <unistd.h>
#include <sched.h>
#include <errno.h>
#include <limits.h>
#include <linux/futex.h>
#include <sys/syscall.h>
#include "mvsched.h"

/* ids shared with the library (src/myth_verif.h) */
#define ID_IDLE 500

/* hook pointers exported by a -DMYTH_VERIF libmyth (weak: unit harnesses may not link it) */
extern void (*volatile myth_verif_point_fn)(int) __attribute__((weak));
extern void (*volatile myth_verif_spin_fn)(int) __attribute__((weak));
extern void (*volatile myth_verif_fence_fn)(int) __attribute__((weak));
extern void (*volatile myth_verif_worker_fn)(int, unsigned int *) __attribute__((weak));

static volatile int g_mode = MV_OFF;
static int nparts;
static volatile int turn[MV_MAXP * 16];
static volatile int joined[MV_MAXP];
static volatile int alive[MV_MAXP];
static volatile int njoined;
static volatile int unit_mode;
static __thread int my_pid = -1;
static __thread unsigned int * my_rng;
static __thread uint64_t noise_state;

static const uint8_t * sched_bytes;
static size_t sched_len, sched_pos;
static uint64_t prng;
static long run_budget;
static int tail_preempt;
static long step_budget;
static int burst_id, burst_ids[9]; static long burst_len, burst_used[MV_MAXP], burst_total;
unsigned long mv_nburst;
static int noise_level;
static uint32_t case_seed;
static int reseed_rng = 1;

static long spins_since_progress[MV_MAXP];
static int at_idle[MV_MAXP];
static volatile int finished;
static uint64_t events;

unsigned long mv_npoints, mv_nspins, mv_nswitch, mv_hash = 1469598103934665603UL;
unsigned long mv_hits[MV_NIDS];
unsigned long mv_switch_hits[MV_NIDS];
static int cur_id;
int mv_result_fd = 1;

static int (*quiescent_fn)(void);
static void (*point_observer)(int, int);
static void (*fence_observer)(int, int);
static void (*report_fn)(int, const char *);

#define H(x) (mv_hash = (mv_hash ^ (unsigned long)(x)) * 1099511628211UL)

static void fwait(volatile int * w) {
  while (!__atomic_load_n(w, __ATOMIC_ACQUIRE)) {
    syscall(SYS_futex, (int *)w, FUTEX_WAIT_PRIVATE, 0, NULL, NULL, 0);
  }
  __atomic_store_n(w, 0, __ATOMIC_RELEASE);
}
static void fwake(volatile int * w) {
  __atomic_store_n(w, 1, __ATOMIC_RELEASE);
  syscall(SYS_futex, (int *)w, FUTEX_WAKE_PRIVATE, 1, NULL, NULL, 0);
}

static unsigned next_rand(void) {
  prng = prng * 6364136223846793005ULL + 1442695040888963407ULL;
  return (unsigned)(prng >> 33);
}

/* returns 0..255 from the schedule, or 256+r once the bytes are exhausted */
static unsigned nextbyte(void) {
  if (sched_pos < sched_len) return sched_bytes[sched_pos++];
  return 256 + (next_rand() & 0xffff) * 256;
}

static volatile int verdict_taken;

void mv_verdict(int code, const char * fmt, ...) {
  if (__sync_lock_test_and_set(&verdict_taken, 1)) {
    for (;;) pause();
  }
  char msg[1024];
  va_list ap;
  va_start(ap, fmt);
  vsnprintf(msg, sizeof msg, fmt, ap);
  va_end(ap);
  for (char * p = msg; *p; p++) if (*p == '\n') *p = ' ';
  char buf[1400];
  int n = snprintf(buf, sizeof buf, "V %d %s\nS points=%lu spins=%lu switches=%lu hash=%016lx\n",
                   code, msg, mv_npoints, mv_nspins, mv_nswitch, mv_hash);
  if (write(mv_result_fd, buf, n) < 0) { }
  if (report_fn) report_fn(code, msg);
  _exit(0);
}

void mv_set_report_fn(void (*fn)(int, const char *)) { report_fn = fn; }
void mv_set_quiescent_fn(int (*fn)(void)) { quiescent_fn = fn; }
void mv_set_point_observer(void (*fn)(int, int)) { point_observer = fn; }
static void (*spin_observer)(int, int);
void mv_set_spin_observer(void (*fn)(int, int)) { spin_observer = fn; }
void mv_set_fence_observer(void (*fn)(int, int)) { fence_observer = fn; }
void mv_set_rng_reseed(int on) { reseed_rng = on; }
int mv_me(void) { return my_pid; }
int mv_enabled(void) { return g_mode != MV_OFF; }
uint64_t mv_now(void) { return events; }

void mv_progress(void) {
  if (g_mode != MV_CONTROLLED) return;
  for (int i = 0; i < nparts; i++) spins_since_progress[i] = 0;
}
void mv_finished(void) { finished = 1; }

static int next_alive(int me) {
  for (int k = 1; k <= nparts; k++) {
    int n = (me + k) % nparts;
    if (n != me && alive[n] && joined[n]) return n;
  }
  return me;
}

static void handoff(int me, int next) {
  if (next == me) return;
  mv_nswitch++;
  mv_switch_hits[cur_id & (MV_NIDS - 1)]++;
  fwake(&turn[next * 16]);
  fwait(&turn[me * 16]);
}

static void noise(int me) {
  if (!noise_state) noise_state = (uint64_t)case_seed * 2654435761u + 977 * (me + 1) + 1;
  noise_state ^= noise_state << 13; noise_state ^= noise_state >> 7; noise_state ^= noise_state << 17;
  unsigned r = (unsigned)(noise_state >> 20);
  if ((int)(r & 255) >= noise_level) return;
  r >>= 8;
  if ((r & 7) == 0) { sched_yield(); return; }
  int n = (r >> 3) & 1023;
  for (volatile int i = 0; i < n; i++) { }
}

static void step_check(void) {
  events++;
  if ((long)events > step_budget) {
    mv_verdict(MVV_INCONCLUSIVE, "step budget %ld exceeded", step_budget);
  }
}

static void do_point(int id) {
  int mode = g_mode;
  if (mode == MV_OFF) return;
  int me = my_pid;
  if (me < 0) return;
  if (mode == MV_NOISE) { __sync_fetch_and_add(&mv_hits[id & (MV_NIDS - 1)], 1); noise(me); return; }
  if (!joined[me]) return;
  step_check();
  mv_npoints++;
  mv_hits[id & (MV_NIDS - 1)]++;
  H(id * 64 + me);
  cur_id = id;
  at_idle[me] = 0;
  if (point_observer) point_observer(id, me);
  burst_used[me] = 0;
  if (nparts == 1) return;
  if (--run_budget > 0) return;
  unsigned b = nextbyte();
  if (b < 256) {
    run_budget = 1 + (b & 15);
    if (b & 16) {
      unsigned t = nextbyte();
      int k = (t < 256 ? t : (t >> 8)) % (nparts - 1);
      int n = (me + 1 + k) % nparts;
      if (!(alive[n] && joined[n])) n = next_alive(me);
      handoff(me, n);
    }
  } else {
    unsigned r = b >> 8;
    run_budget = 1 + (r & 15);
    if (tail_preempt == 0) { run_budget = 64; return; }
    if ((int)((r >> 4) & 255) < tail_preempt) {
      int k = (r >> 12) % (nparts - 1);
      int n = (me + 1 + k) % nparts;
      if (!(alive[n] && joined[n])) n = next_alive(me);
      handoff(me, n);
    }
  }
}

static int is_burst_id(int id) { for (int i = 0; burst_ids[i]; i++) if (burst_ids[i] == id) return 1; return 0; }
static void do_spin(int id) {
  int mode = g_mode;
  if (mode == MV_OFF) return;
  int me = my_pid;
  if (me < 0) return;
  if (mode == MV_NOISE) {
    __sync_fetch_and_add(&mv_hits[id & (MV_NIDS - 1)], 1);
    if (id != ID_IDLE) sched_yield(); else noise(me);
    return;
  }
  if (!joined[me]) {
    if (unit_mode || id != ID_IDLE) return;
    /* a worker arrives at its idle loop: it becomes a parked participant */
    if (my_rng && reseed_rng) *my_rng = case_seed * 7919u + me + 1;
    at_idle[me] = 1;
    joined[me] = 1;
    __sync_fetch_and_add(&njoined, 1);
    fwait(&turn[me * 16]);
    return;
  }
  if (burst_len && (id == burst_id || is_burst_id(id)) && burst_used[me] < burst_len && burst_total < 2600000) {
    /* poll again in place: the same schedule as every other participant being slow for that long */
    if (burst_used[me]++ == 0) { H(id * 64 + me + 11); mv_hits[id & (MV_NIDS - 1)]++; }
    burst_total++; mv_nburst++;
    return;
  }
  step_check();
  mv_nspins++;
  mv_hits[id & (MV_NIDS - 1)]++;
  H(id * 64 + me + 7);
  cur_id = id;
  spins_since_progress[me]++;
  at_idle[me] = (id == ID_IDLE);
  if (spin_observer) spin_observer(id, me);
  if (!finished) {
    if (id == ID_IDLE && !unit_mode) {
      int all = 1;
      for (int i = 0; i < nparts; i++) if (!at_idle[i]) { all = 0; break; }
      if (all && quiescent_fn && quiescent_fn()) {
        mv_verdict(MVV_DEADLOCK, "all %d workers idle, all run queues empty, program not finished", nparts);
      }
    }
    long lim = 64L * nparts;
    int all = 1;
    for (int i = 0; i < nparts; i++) {
      if (alive[i] && joined[i] && spins_since_progress[i] < lim) { all = 0; break; }
    }
    if (all) {
      mv_verdict(MVV_STUCK, "every participant spun >= %ld times without progress (last spin id %d by %d)", lim, id, me);
    }
  }
  if (nparts == 1) return;
  handoff(me, next_alive(me));
}

static void do_fence(int kind) {
  if (g_mode != MV_CONTROLLED) return;
  int me = my_pid;
  if (me < 0 || !joined[me]) return;
  if (fence_observer) fence_observer(kind, me);
}

static void on_worker(int rank, unsigned int * rng) {
  my_pid = rank;
  my_rng = rng;
}

void mv_point(int id) { do_point(id); }
void mv_spin(int id) { do_spin(id); }

void mv_install(void) {
  if (&myth_verif_point_fn) myth_verif_point_fn = do_point;
  if (&myth_verif_spin_fn) myth_verif_spin_fn = do_spin;
  if (&myth_verif_fence_fn) myth_verif_fence_fn = do_fence;
  if (&myth_verif_worker_fn) myth_verif_worker_fn = on_worker;
}

static void reset_common(const mv_config * cfg) {
  nparts = cfg->nparts;
  sched_bytes = cfg->sched; sched_len = cfg->sched_len; sched_pos = 0;
  case_seed = cfg->seed;
  prng = (uint64_t)cfg->seed * 2654435761u + 12345;
  run_budget = 1;
  tail_preempt = cfg->tail_preempt;
  step_budget = cfg->step_budget > 0 ? cfg->step_budget : 5000000;
  burst_id = cfg->burst_len > 0 ? cfg->burst_id : -1; burst_len = cfg->burst_len; burst_total = 0;
  for (int i = 0; i < 8; i++) burst_ids[i] = cfg->burst_len > 0 ? cfg->burst_ids[i] : 0; burst_ids[8] = 0;
  for (int i = 0; i < MV_MAXP; i++) burst_used[i] = 0;
  noise_level = cfg->noise_level;
  finished = 0;
  events = 0;
  for (int i = 0; i < MV_MAXP; i++) {
    spins_since_progress[i] = 0; at_idle[i] = 0; joined[i] = 0; alive[i] = (i < nparts); turn[i * 16] = 0;
  }
  njoined = 0;
}

void mv_enable(const mv_config * cfg) {
  if (cfg->mode == MV_OFF) return;
  reset_common(cfg);
  unit_mode = 0;
  int me = my_pid;
  if (me < 0) { fprintf(stderr, "mv_enable: caller is not a worker\n"); abort(); }
  if (cfg->mode == MV_NOISE) { g_mode = MV_NOISE; return; }
  joined[me] = 1; njoined = 1;
  if (my_rng && reseed_rng) *my_rng = case_seed * 7919u + me + 1;
  __sync_synchronize();
  g_mode = MV_CONTROLLED;
  while (__atomic_load_n(&njoined, __ATOMIC_ACQUIRE) < nparts) sched_yield();
}

void mv_disable(void) {
  int mode = g_mode;
  if (mode == MV_OFF) return;
  g_mode = MV_OFF;
  __sync_synchronize();
  if (mode == MV_CONTROLLED) {
    int me = my_pid;
    for (int i = 0; i < nparts; i++) {
      if (i != me && joined[i]) { joined[i] = 0; fwake(&turn[i * 16]); }
    }
    if (me >= 0) joined[me] = 0;
    njoined = 0;
  }
}

/* ---- unit harness participants ---- */
void mv_unit_begin(const mv_config * cfg) {
  reset_common(cfg);
  unit_mode = 1;
  g_mode = cfg->mode;
}

void mv_unit_register(int pid) {
  my_pid = pid; my_rng = 0;
  if (g_mode != MV_CONTROLLED) return;
  joined[pid] = 1;
  __sync_fetch_and_add(&njoined, 1);
  if (pid != 0) fwait(&turn[pid * 16]);
  else while (__atomic_load_n(&njoined, __ATOMIC_ACQUIRE) < nparts) sched_yield();
}

void mv_unit_exit(int pid) {
  if (g_mode != MV_CONTROLLED) return;
  alive[pid] = 0;
  int n = next_alive(pid);
  joined[pid] = 0;
  my_pid = -1;
  if (n != pid) fwake(&turn[n * 16]);
}
