/* C06 barrier, C07 join counter, C08 uncondition variable, C09 full/empty lock, C14 once */
#include "scen_util.h"

/* no-switch observer: while nosw[me] is set on a worker, the thread running there must not
   reach a block / yield entry point */
static volatile int nosw[MV_MAXP];
static const char * nosw_what = "";
static void nosw_observer(int id, int me) {
  if (me >= 0 && nosw[me] && (id == MVP_BLOCK_A || id == MVP_YIELD_A || id == MVP_JOIN_B || id == MVP_UNCOND_WAIT_A))
    mt_fail("%s switched the calling thread away (hook %d)", nosw_what, id);
}
static inline void nosw_on(void) { int me = mv_me(); if (me >= 0) nosw[me] = 1; }
static inline void nosw_off(void) { int me = mv_me(); if (me >= 0) nosw[me] = 0; }

/* =============================== C06 barrier =============================== */
#define BMAXN 4200
static struct {
  int N, R, main_participates; unsigned dseed;
  myth_barrier_t b;
  volatile int arrived[8], returned[8], serial[8];
  int raced_ahead, migrated;
} B;
/* per-participant, per-round delay (0..3 yields), derived from the generated seed */
static int b_delay(int me, int k) { unsigned x = (unsigned)(me * 2654435761u) ^ (unsigned)(k * 40503u) ^ B.dseed; x ^= x >> 13; x *= 0x5bd1e995u; x ^= x >> 15; return B.N > 64 ? (int)((x & 15) == 0) : (int)(x & 3); }

static void * barrier_body(void * a) {
  int me = (int)(intptr_t)a;
  for (int k = 0; k < B.R; k++) {
    do_yields(b_delay(me, k));
    if (k > 0 && B.returned[k - 1] < B.N) __sync_fetch_and_add(&B.raced_ahead, 1);
    __sync_fetch_and_add(&B.arrived[k], 1);
    int w0 = myth_get_worker_num();
    int r = myth_barrier_wait(&B.b);
    if (myth_get_worker_num() != w0) __sync_fetch_and_add(&B.migrated, 1);
    if (B.arrived[k] != B.N) mt_fail("participant %d returned from round %d when only %d of %d had arrived", me, k, B.arrived[k], B.N);
    if (r == MYTH_BARRIER_SERIAL_THREAD) {
      if (__sync_add_and_fetch(&B.serial[k], 1) != 1) mt_fail("round %d: more than one serial thread", k);
    } else if (r != 0) mt_fail("barrier_wait returned %d", r);
    __sync_fetch_and_add(&B.returned[k], 1);
    op_done();
  }
  return 0;
}

void scen_c06(mt_case * c) {
  mt_engine_cfg e; rd_t * r = &c->prog;
  mt_decode_engine(c, &e, 8);
  /* N: dense small values, and (1 case in 8) the boundaries of powers of two up to 4097 -- "N from 1 upward" */
  static const int bigN[] = { 15, 16, 17, 31, 32, 33, 63, 64, 65, 127, 128, 129, 255, 256, 257, 511, 512, 513, 1023, 1024, 1025, 1026, 1027, 1100, 2047, 2048, 2049, 2050, 4097 };
  unsigned sel = rd_u8(r);
  B.N = rd_range(r, 1, 12);
  int big = (sel & 7) == 7;
  if (big) B.N = bigN[rd_below(r, sizeof bigN / sizeof bigN[0])];
  B.R = rd_range(r, 1, big ? 3 : 6); B.main_participates = (int)rd_below(r, 2); B.dseed = rd_u16(r) | ((unsigned)rd_u16(r) << 16);
  if (big && e.W < 2 && rd_below(r, 2)) e.W = 2 + (int)rd_below(r, 3);
  mt_desc("C06 barrier N=%d rounds=%d main_participates=%d delay seed=%08x\n", B.N, B.R, B.main_participates, B.dseed);
  mt_hash(c->prog.p, c->prog.pos);
  mt_allow_prelude = 1;
  mt_lib_start(c, &e, big ? 32768 : 0);
  MT_DIRTY(B.b); Z0(myth_barrier_init(&B.b, 0, B.N));
  myth_thread_t * th = calloc((size_t)B.N + 1, sizeof *th); int first = B.main_participates ? 1 : 0;
  for (int i = first; i < B.N; i++) Z0(mt_create(&th[i], barrier_body, (void *)(intptr_t)i));
  if (B.main_participates) barrier_body((void *)0);
  for (int i = first; i < B.N; i++) { Z0(myth_join(th[i], 0)); mv_progress(); }
  mt_lib_finish();
  for (int k = 0; k < B.R; k++) {
    if (B.returned[k] != B.N) mt_fail("round %d: %d of %d returned", k, B.returned[k], B.N);
    if (B.serial[k] != 1) mt_fail("round %d: %d serial threads (expected exactly 1)", k, B.serial[k]);
  }
  if (B.b.state != 0) mt_fail("barrier state %ld at quiescence", (long)B.b.state);
  long spun = (long)HIT(MVS_WAKE_MANY_S);
  mt_stat("N", B.N); mt_stat("last_arriver_spun", spun); mt_stat("raced_ahead", B.raced_ahead); mt_stat("migrated", B.migrated);
  if (spun) mt_label("last_arriver_waited_for_sleeper"); if (B.raced_ahead) mt_label("raced_into_next_round");
  if (B.migrated) mt_label("resumed_on_other_worker"); if (B.N == 1) mt_label("N1"); if (e.W == 1) mt_label("W1"); if (big) mt_label("N_at_power_of_two_boundary"); if (B.N > 1024) mt_label("N_gt_1024");
  mt_nontrivial(spun > 0 || B.raced_ahead > 0);
}

/* =============================== C07 join counter =============================== */
static struct {
  long N; int K, D; long preset, dec_total, hold_back;
  int w_when[8], w_y[8]; long d_cnt[8]; int d_y[8];
  myth_join_counter_t jc;
  volatile long started, finished; volatile int released; int blocked, migrated;
} J;
static const long jc_N[] = { 0, 1, 2, 3, 4, 7, 8, 9, 15, 16, 17, 31, 32, 33, 63, 64, 65, 255, 256, 257, 1023, 1024, 65535, 65536, 65537,
  (1L << 30) - 1, 1L << 30, (1L << 30) + 1, (1L << 31) - 2, (1L << 31) - 1 /* INT_MAX: the public init takes an int */ };
#define NJCN (int)(sizeof jc_N / sizeof jc_N[0])

static void jc_dec_one(void) {
  __sync_fetch_and_add(&J.started, 1);
  myth_join_counter_dec(&J.jc);
  __sync_fetch_and_add(&J.finished, 1);
  mv_progress();
}
static void * jc_decrementer(void * a) {
  int me = (int)(intptr_t)a;
  for (long i = 0; i < J.d_cnt[me]; i++) { jc_dec_one(); if (J.d_y[me] && (i % J.d_y[me]) == 0) do_yields(1); }
  op_done();
  return 0;
}
static void * jc_waiter(void * a) {
  int me = (int)(intptr_t)a;
  do_yields(J.w_y[me]);
  int w0 = myth_get_worker_num();
  unsigned long b0 = HIT(MVP_JC_WAIT_B);
  int late = (J.finished + J.preset >= J.N);
  if (late) { nosw_what = "join_counter_wait after the N-th decrement"; nosw_on(); }
  myth_join_counter_wait(&J.jc);
  if (late) nosw_off();
  if (J.started + J.preset < J.N) mt_fail("join_counter_wait returned after %ld of %ld decrements", J.started + J.preset, J.N);
  if ((J.jc.state & J.jc.state_mask) != J.N) mt_fail("join_counter_wait returned with decrement field %ld != N=%ld", (long)(J.jc.state & J.jc.state_mask), J.N);
  if (myth_get_worker_num() != w0) __sync_fetch_and_add(&J.migrated, 1);
  (void)b0;
  __sync_fetch_and_add(&J.released, 1);
  op_done();
  return 0;
}

void scen_c07(mt_case * c) {
  mt_engine_cfg e; rd_t * r = &c->prog;
  mt_decode_engine(c, &e, 8);
  J.N = jc_N[rd_below(r, NJCN)];
  if (rd_below(r, 4) == 0) J.N = rd_range(r, 0, 40);      /* dense small values too */
  J.K = rd_range(r, 0, 6); J.D = rd_range(r, 1, 5);
  long exec = J.N <= 48 ? J.N : (long)rd_range(r, 1, 48);  /* decrements really executed */
  J.preset = J.N - exec;
  J.hold_back = (J.N > 0 && rd_below(r, 3) == 0) ? (long)rd_range(r, 1, exec < 3 ? (int)exec : 3) : 0;  /* "never completes" phase */
  long by_threads = exec - J.hold_back, left = by_threads;
  for (int d = 0; d < J.D; d++) { long q = (d == J.D - 1) ? left : (long)rd_below(r, (unsigned)left + 1); J.d_cnt[d] = q; left -= q; J.d_y[d] = (int)rd_below(r, 4); }
  for (int k = 0; k < J.K; k++) J.w_y[k] = (int)rd_below(r, 6);
  mt_desc("C07 join counter N=%ld (preset %ld, executed %ld, held back %ld) waiters=%d decrementers=%d\n decs:", J.N, J.preset, exec, J.hold_back, J.K, J.D);
  for (int d = 0; d < J.D; d++) mt_desc(" %ld(y%d)", J.d_cnt[d], J.d_y[d]);
  mt_desc(" waiter delays:"); for (int k = 0; k < J.K; k++) mt_desc(" %d", J.w_y[k]);
  mt_desc("\n");
  mt_hash(c->prog.p, c->prog.pos);
  mt_allow_prelude = 1;
  mt_lib_start(c, &e, 0);
  mv_set_point_observer(nosw_observer);
  MT_DIRTY(J.jc); myth_join_counter_init(&J.jc, 0, J.N);
  /* a state reachable by `preset` real decrements with no waiter */
  if (J.preset) J.jc.state = J.preset;
  myth_thread_t wt[8], dt[8];
  int order = (int)rd_below(r, 3);
  if (order == 0) for (int k = 0; k < J.K; k++) Z0(mt_create(&wt[k], jc_waiter, (void *)(intptr_t)k));
  for (int d = 0; d < J.D; d++) { Z0(mt_create(&dt[d], jc_decrementer, (void *)(intptr_t)d)); if (order == 1 && d < J.K) Z0(mt_create(&wt[d], jc_waiter, (void *)(intptr_t)d)); }
  if (order == 1) for (int k = J.D; k < J.K; k++) Z0(mt_create(&wt[k], jc_waiter, (void *)(intptr_t)k));
  if (order == 2) for (int k = 0; k < J.K; k++) Z0(mt_create(&wt[k], jc_waiter, (void *)(intptr_t)k));
  for (int d = 0; d < J.D; d++) { Z0(myth_join(dt[d], 0)); mv_progress(); }
  if (J.hold_back) {
    /* fewer than N decrements: nobody may have been released, however long we wait */
    do_yields(4 + J.K);
    if (J.released) mt_fail("%d waiter(s) released after only %ld of %ld decrements", J.released, J.started + J.preset, J.N);
    for (long i = 0; i < J.hold_back; i++) jc_dec_one();
  }
  for (int k = 0; k < J.K; k++) { Z0(myth_join(wt[k], 0)); mv_progress(); }
  /* a wait issued afterwards returns immediately */
  nosw_what = "join_counter_wait after the N-th decrement"; nosw_on(); myth_join_counter_wait(&J.jc); nosw_off();
  mt_lib_finish();
  if (J.released != J.K) mt_fail("%d of %d waiters released", J.released, J.K);
  long announced = (long)HIT(MVP_JC_WAIT_B);
  if ((J.jc.state & J.jc.state_mask) != J.N) mt_fail("decrement field %ld != N %ld at quiescence", (long)(J.jc.state & J.jc.state_mask), J.N);
  if (e.mode == MV_CONTROLLED && (J.jc.state >> J.jc.n_threads_bits) != announced) mt_fail("waiter field %ld != %ld announced waiters", (long)(J.jc.state >> J.jc.n_threads_bits), announced);
  long spun = (long)HIT(MVS_WAKE_MANY_Q);
  mt_stat("announced", announced); mt_stat("final_dec_spun", spun); mt_stat("migrated", J.migrated);
  if (announced) mt_label("waiter_blocked"); if (spun) mt_label("final_dec_waited_for_enqueue"); if (J.hold_back) mt_label("held_back_phase");
  if (J.preset) mt_label("large_N_preset"); if (J.N == 0) mt_label("N0"); if (J.migrated) mt_label("resumed_on_other_worker");
  mt_nontrivial(announced > 0 && (spun > 0 || J.migrated > 0));
}

/* =============================== C08 uncond =============================== */
enum { ST_FULL = 1, ST_SLEEPING = 2 };
static struct {
  int items, yp, yc; volatile long slot; myth_uncond_t u;
  volatile long sig_started, sig_done, wait_returned, waits; long got[64]; int ngot; int migrated;
} U;

static void u_wait(void) {
  int w0 = myth_get_worker_num();
  __sync_fetch_and_add(&U.waits, 1);
  myth_uncond_wait(&U.u);
  long wr = __sync_add_and_fetch(&U.wait_returned, 1);
  if (wr > U.sig_started) mt_fail("uncond_wait returned %ld times but only %ld signals were issued", wr, (long)U.sig_started);
  if (myth_get_worker_num() != w0) __sync_fetch_and_add(&U.migrated, 1);
  mv_progress();
}
static void u_signal(void) {
  __sync_fetch_and_add(&U.sig_started, 1);
  myth_uncond_signal(&U.u);
  /* the waiter has been handed to the scheduler: it is runnable, running or done */
  __sync_fetch_and_add(&U.sig_done, 1);
  mv_progress();
}
static void * u_producer(void * a) {
  (void)a;
  for (long i = 0; i < U.items; i++) {
    for (;;) {
      long o = U.slot;
      if (o & ST_FULL) { if (__sync_bool_compare_and_swap(&U.slot, o, o | ST_SLEEPING)) u_wait(); }
      else if (__sync_bool_compare_and_swap(&U.slot, o, ((i + 1) << 2) | ST_FULL)) { if (o & ST_SLEEPING) u_signal(); break; }
    }
    do_yields(U.yp); op_done();
  }
  return 0;
}
static void * u_consumer(void * a) {
  (void)a;
  for (long i = 0; i < U.items; i++) {
    for (;;) {
      long o = U.slot;
      if (o & ST_FULL) { if (__sync_bool_compare_and_swap(&U.slot, o, 0)) { if (o & ST_SLEEPING) u_signal(); U.got[U.ngot++] = o >> 2; break; } }
      else if (__sync_bool_compare_and_swap(&U.slot, o, o | ST_SLEEPING)) u_wait();
    }
    do_yields(U.yc); op_done();
  }
  return 0;
}
static void * u_bystander(void * a) { for (int i = 0; i < (int)(intptr_t)a; i++) { myth_yield(); mv_progress(); } return 0; }
void scen_c08(mt_case * c) {
  mt_engine_cfg e; rd_t * r = &c->prog;
  mt_decode_engine(c, &e, 8);
  U.items = rd_range(r, 1, c->tier ? 60 : 30); U.yp = (int)rd_below(r, 3); U.yc = (int)rd_below(r, 3);
  int consumer_first = (int)rd_below(r, 2), main_role = (int)rd_below(r, 3);
  /* how long an early signal keeps polling before anybody else runs: mostly not at all, sometimes very long */
  { unsigned k = rd_below(r, 64); e.burst_id = MVS_UNCOND_SIGNAL; e.burst_ids[0] = 0; e.burst_len = k < 40 ? 0 : k < 52 ? 100 : k < 59 ? 5000 : k < 62 ? 70000 : 1100000; }
  int nby = (int)rd_below(r, 4), byy = rd_range(r, 1, 24);   /* bystander threads that only yield: other work in the run queues */
  mt_desc("C08 uncond mailbox items=%d producer yields %d consumer yields %d consumer_first=%d main_role=%d bystanders=%d(x%d yields)\n", U.items, U.yp, U.yc, consumer_first, main_role, nby, byy);
  mt_hash(c->prog.p, c->prog.pos);
  mt_allow_prelude = 1;
  mt_lib_start(c, &e, 0);
  MT_DIRTY(U.u); myth_uncond_init(&U.u);
  myth_thread_t tp = 0, tc = 0, tb[4];
  for (int k = 0; k < nby; k++) Z0(mt_create(&tb[k], u_bystander, (void *)(intptr_t)byy));
  if (consumer_first) { if (main_role != 2) Z0(mt_create(&tc, u_consumer, 0)); if (main_role != 1) Z0(mt_create(&tp, u_producer, 0)); }
  else { if (main_role != 1) Z0(mt_create(&tp, u_producer, 0)); if (main_role != 2) Z0(mt_create(&tc, u_consumer, 0)); }
  if (main_role == 1) u_producer(0); else if (main_role == 2) u_consumer(0);
  if (tp) { Z0(myth_join(tp, 0)); mv_progress(); }
  if (tc) { Z0(myth_join(tc, 0)); mv_progress(); }
  for (int k = 0; k < nby; k++) { Z0(myth_join(tb[k], 0)); mv_progress(); }
  mt_lib_finish();
  if (U.ngot != U.items) mt_fail("consumed %d of %d items", U.ngot, U.items);
  for (int i = 0; i < U.ngot && i < 64; i++) if (U.got[i] != i + 1) mt_fail("item %d: got %ld", i, U.got[i]);
  if (U.wait_returned != U.sig_done) mt_fail("%ld waits returned, %ld signals completed: resume count per signal != 1", (long)U.wait_returned, (long)U.sig_done);
  if (U.u.th != 0) mt_fail("uncond slot not empty at the end");
  long early = (long)HIT(MVS_UNCOND_SIGNAL);
  mt_stat("waits", U.waits); mt_stat("signal_before_suspend", early); mt_stat("migrated", U.migrated);
  if (U.waits) mt_label("waited"); if (early) mt_label("signal_before_waiter_suspended"); if (U.migrated) mt_label("resumed_on_other_worker"); if (e.W == 1) mt_label("W1");
  if (e.burst_len && early) mt_label(e.burst_len >= 70000 ? "long_early_signal_window" : "medium_early_signal_window");
  mt_nontrivial(U.waits > 0 && (early > 0 || U.migrated > 0));
}

/* =============================== C09 felock =============================== */
static struct {
  int P, C, I; int items[5], quota[5], yp[5], yc[5], insp, insp_mark, R, peeks[4], yr[4]; long peeked, chain;
  myth_felock_t fe; witness_t w; int model_status; long box; int consumed[5 * 32]; int migrated; long cwaits;
} F;
static void fe_check_locked(const char * who, int want) {
  wit_enter(&F.w, who);
  int s = myth_felock_status(&F.fe);
  if (s != F.model_status) mt_fail("%s: status %d under the lock, model says %d", who, s, F.model_status);
  if (want >= 0 && s != want) mt_fail("%s: wait_and_lock(%d) returned with status %d", who, want, s);
}
static void * fe_producer(void * a) {
  int me = (int)(intptr_t)a;
  for (int i = 0; i < F.items[me]; i++) {
    int w0 = myth_get_worker_num();
    myth_felock_wait_and_lock(&F.fe, 0);
    if (myth_get_worker_num() != w0) __sync_fetch_and_add(&F.migrated, 1);
    fe_check_locked("producer", 0);
    F.box = me * 32 + i; F.model_status = 1;
    wit_leave(&F.w, "producer");
    myth_felock_mark_and_signal(&F.fe, 1);
    do_yields(F.yp[me]); op_done();
  }
  return 0;
}
static void * fe_consumer(void * a) {
  int me = (int)(intptr_t)a;
  for (int i = 0; i < F.quota[me]; i++) {
    int w0 = myth_get_worker_num();
    myth_felock_wait_and_lock(&F.fe, 1);
    if (myth_get_worker_num() != w0) __sync_fetch_and_add(&F.migrated, 1);
    fe_check_locked("consumer", 1);
    long v = F.box; F.box = -1;
    if (v < 0 || v >= 5 * 32) mt_fail("consumer read an empty / invalid box %ld", v);
    F.consumed[v]++; F.model_status = 0;
    wit_leave(&F.w, "consumer");
    myth_felock_mark_and_signal(&F.fe, 0);
    do_yields(F.yc[me]); op_done();
  }
  return 0;
}
static void * fe_inspector(void * a) {
  int n = (int)(intptr_t)a;
  for (int i = 0; i < n; i++) {
    myth_felock_lock(&F.fe);
    fe_check_locked("inspector", -1);
    do_yields(1);
    wit_leave(&F.w, "inspector");
    /* release either with unlock or by re-publishing the status that is already there */
    if (F.insp_mark && (i & 1) == 0) myth_felock_mark_and_signal(&F.fe, F.model_status); else myth_felock_unlock(&F.fe);
    do_yields(1); op_done();
  }
  return 0;
}
/* readFF: wait until full, look at the value, leave it full.  A reader does its generated number of
   looks during the exchange and then keeps looking until it has seen the closing value that the main
   thread writes (and leaves full) after every item was consumed; the closing value reaches all R
   readers only through the readers' own mark_and_signal(1) calls, one waiter per call. */
#define FE_CLOSING 100000
static void * fe_reader(void * a) {
  int me = (int)(intptr_t)a; int last[5] = { -1, -1, -1, -1, -1 };
  for (int i = 0; ; i++) {
    myth_felock_wait_and_lock(&F.fe, 1);
    fe_check_locked("reader", 1);
    long v = F.box;
    if (v != FE_CLOSING) {
      if (v < 0 || v >= 5 * 32) mt_fail("reader saw an empty / invalid box %ld with status full", v);
      if ((int)(v % 32) < last[v / 32]) mt_fail("reader saw item %ld of producer %ld after item %d", v % 32, v / 32, last[v / 32]);
      last[v / 32] = (int)(v % 32);
    }
    wit_leave(&F.w, "reader");
    myth_felock_mark_and_signal(&F.fe, 1);
    if (v == FE_CLOSING) { __sync_fetch_and_add(&F.chain, 1); op_done(); break; }
    __sync_fetch_and_add(&F.peeked, 1);
    if (i < F.peeks[me]) op_done();
    do_yields(F.yr[me] + (i >= F.peeks[me]));
  }
  return 0;
}
void scen_c09(mt_case * c) {
  mt_engine_cfg e; rd_t * r = &c->prog;
  mt_decode_engine(c, &e, 8);
  F.P = rd_range(r, 1, 5); F.C = rd_range(r, 1, 5); F.insp = (int)rd_below(r, 3) == 0 ? rd_range(r, 1, 6) : 0;
  int maxit = c->tier ? 30 : 8, total = 0;
  for (int i = 0; i < F.P; i++) { F.items[i] = rd_range(r, 1, maxit); total += F.items[i]; F.yp[i] = (int)rd_below(r, 3); }
  int left = total;
  for (int j = 0; j < F.C; j++) { int q = (j == F.C - 1) ? left : (int)rd_below(r, (unsigned)left + 1); F.quota[j] = q; left -= q; F.yc[j] = (int)rd_below(r, 3); }
  F.insp_mark = (int)rd_below(r, 2);
  F.R = rd_below(r, 2) ? rd_range(r, 1, 4) : 0;
  for (int k = 0; k < F.R; k++) { F.peeks[k] = (int)rd_below(r, 4); F.yr[k] = (int)rd_below(r, 3); }
  mt_desc("C09 felock mailbox P=%d C=%d inspector_ops=%d%s readers(readFF)=%d\n items:", F.P, F.C, F.insp, F.insp && F.insp_mark ? " (releasing with mark_and_signal(current status))" : "", F.R);
  for (int i = 0; i < F.P; i++) mt_desc(" %d(y%d)", F.items[i], F.yp[i]);
  mt_desc(" quotas:"); for (int j = 0; j < F.C; j++) mt_desc(" %d(y%d)", F.quota[j], F.yc[j]);
  mt_desc("\n");
  mt_hash(c->prog.p, c->prog.pos);
  mt_allow_prelude = 1;
  mt_lib_start(c, &e, 0);
  MT_DIRTY(F.fe); myth_felock_init(&F.fe, 0); F.box = -1;
  myth_thread_t th[12], rth[4]; int n = 0;
  int cf = (int)rd_below(r, 2), rf = (int)rd_below(r, 2);
  if (rf) for (int k = 0; k < F.R; k++) Z0(mt_create(&rth[k], fe_reader, (void *)(intptr_t)k));
  if (cf) for (int j = 0; j < F.C; j++) Z0(mt_create(&th[n++], fe_consumer, (void *)(intptr_t)j));
  for (int i = 0; i < F.P; i++) Z0(mt_create(&th[n++], fe_producer, (void *)(intptr_t)i));
  if (!cf) for (int j = 0; j < F.C; j++) Z0(mt_create(&th[n++], fe_consumer, (void *)(intptr_t)j));
  if (F.insp) Z0(mt_create(&th[n++], fe_inspector, (void *)(intptr_t)F.insp));
  if (!rf) for (int k = 0; k < F.R; k++) Z0(mt_create(&rth[k], fe_reader, (void *)(intptr_t)k));
  for (int i = 0; i < n; i++) { Z0(myth_join(th[i], 0)); mv_progress(); }
  if (F.R) {
    /* closing write: every item is consumed, the variable is empty; fill it for good */
    myth_felock_wait_and_lock(&F.fe, 0);
    fe_check_locked("closing writer", 0);
    F.box = FE_CLOSING; F.model_status = 1;
    wit_leave(&F.w, "closing writer");
    myth_felock_mark_and_signal(&F.fe, 1);
    for (int k = 0; k < F.R; k++) { Z0(myth_join(rth[k], 0)); mv_progress(); }
    if (F.chain != F.R) mt_fail("%ld of %d readers saw the closing value", F.chain, F.R);
  }
  mt_lib_finish();
  for (int i = 0; i < F.P; i++) for (int k = 0; k < 32; k++) {
    int want = k < F.items[i]; if (F.consumed[i * 32 + k] != want) mt_fail("item %d of producer %d consumed %d times", k, i, F.consumed[i * 32 + k]);
  }
  if (myth_felock_status(&F.fe) != (F.R ? 1 : 0)) mt_fail("felock status %d at the end", myth_felock_status(&F.fe));
  long blocked = (long)HIT(MVP_BLOCK_CB_B);
  mt_stat("blocked", blocked); mt_stat("migrated", F.migrated);
  if (blocked) mt_label("blocked"); if (F.migrated) mt_label("resumed_on_other_worker"); if (F.insp) mt_label("plain_lock_mixed"); if (e.W == 1) mt_label("W1");
  if (F.R >= 2) mt_label("readers_chain"); if (F.insp && F.insp_mark) mt_label("remark_same_status"); mt_stat("reader_looks", F.peeked);
  mt_nontrivial(blocked > 0 && (F.migrated > 0 || SWHIT(MVP_BLOCK_CB_A) + SWHIT(MVP_BLOCK_CB_B) > 0));
}

/* =============================== C14 once =============================== */
static struct {
  int K, NC, kind[3]; int ctl_of[16], y[16], repeats[16];
  myth_once_t ctl[3]; volatile int runs[3], completed[3]; myth_mutex_t m; int waited;
} O;
static int once_cur;   /* which control an init routine belongs to: routines are per control */
static void * once_child(void * a) { do_yields(1); return a; }
static void once_init_common(int i) {
  int n = __sync_add_and_fetch(&O.runs[i], 1);
  if (n != 1) mt_fail("init routine of control %d executed %d times", i, n);
  switch (O.kind[i]) {
  case 0: break;
  case 1: do_yields(3); break;
  case 2: myth_mutex_lock(&O.m); do_yields(1); Z0(myth_mutex_unlock(&O.m)); break;
  case 3: { myth_thread_t t; void * rv; Z0(mt_create(&t, once_child, (void *)7)); myth_join(t, &rv); if (rv != (void *)7) mt_fail("init routine: joined child returned %p", rv); break; }
  }
  mv_progress();
  O.completed[i] = 1;     /* last statement of the routine */
}
static void once_init0(void) { once_init_common(0); }
static void once_init1(void) { once_init_common(1); }
static void once_init2(void) { once_init_common(2); }
static void (* const once_fn[3])(void) = { once_init0, once_init1, once_init2 };
static void * once_caller(void * a) {
  int me = (int)(intptr_t)a, i = O.ctl_of[me];
  do_yields(O.y[me]);
  unsigned long s0 = HIT(MVS_ONCE_WAIT);
  Z0(myth_once(&O.ctl[i], once_fn[i]));
  if (!O.completed[i]) mt_fail("myth_once returned to caller %d before the init routine of control %d completed", me, i);
  if (HIT(MVS_ONCE_WAIT) != s0) __sync_fetch_and_add(&O.waited, 1);
  for (int k = 0; k < O.repeats[me]; k++) {
    nosw_what = "a repeated myth_once call"; nosw_on();
    Z0(myth_once(&O.ctl[i], once_fn[i]));
    nosw_off();
    if (O.runs[i] != 1) mt_fail("init routine of control %d ran again on a later call", i);
  }
  op_done();
  return 0;
}
void scen_c14(mt_case * c) {
  mt_engine_cfg e; rd_t * r = &c->prog;
  mt_decode_engine(c, &e, 8);
  (void)once_cur;
  O.K = rd_range(r, 1, 16); O.NC = rd_range(r, 1, 3);
  for (int i = 0; i < O.NC; i++) O.kind[i] = (int)rd_below(r, 4);
  mt_desc("C14 once callers=%d controls=%d init kinds:", O.K, O.NC);
  for (int i = 0; i < O.NC; i++) mt_desc(" %s", (const char *[]){ "plain", "yields", "locks-mutex", "creates+joins" }[O.kind[i]]);
  mt_desc("\n callers:");
  for (int k = 0; k < O.K; k++) { O.ctl_of[k] = (int)rd_below(r, (unsigned)O.NC); O.y[k] = (int)rd_below(r, 3); O.repeats[k] = (int)rd_below(r, 3); mt_desc(" c%d(y%d,r%d)", O.ctl_of[k], O.y[k], O.repeats[k]); }
  mt_desc("\n");
  mt_hash(c->prog.p, c->prog.pos);
  mt_allow_prelude = 1;
  mt_lib_start(c, &e, 0);
  mv_set_point_observer(nosw_observer);
  MT_DIRTY(O.m); Z0(myth_mutex_init(&O.m, 0));
  myth_thread_t th[16];
  for (int k = 0; k < O.K; k++) Z0(mt_create(&th[k], once_caller, (void *)(intptr_t)k));
  for (int k = 0; k < O.K; k++) { Z0(myth_join(th[k], 0)); mv_progress(); }
  mt_lib_finish();
  int used[3] = { 0 };
  for (int k = 0; k < O.K; k++) used[O.ctl_of[k]] = 1;
  for (int i = 0; i < O.NC; i++) if (O.runs[i] != used[i]) mt_fail("control %d: init routine ran %d times (expected %d)", i, O.runs[i], used[i]);
  mt_stat("callers_that_waited", O.waited); mt_stat("once_wait_spins", (long)HIT(MVS_ONCE_WAIT));
  if (O.waited) mt_label("caller_waited_for_in_progress_init");
  for (int i = 0; i < O.NC; i++) mt_label((const char *[]){ "init_plain", "init_yields", "init_locks", "init_creates" }[O.kind[i]]);
  if (e.W == 1) mt_label("W1");
  mt_nontrivial(O.waited > 0);
}
