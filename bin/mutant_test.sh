#!/bin/bash
# mutant_test.sh <Cxx> <diff>... : run the quick check of <Cxx> against each patch (scratch worktree),
# print RED/GREEN and append to mutants/RESULTS.md
prop=$1; shift
cd /verif
for d in "$@"; do
  t0=$(date +%s)
  out=$(VERIF_SEED=${VERIF_SEED:-1} bin/with_patch.sh $d bin/check $prop 2>&1)
  rc=$?
  t1=$(date +%s)
  if [ $rc -eq 1 ] && echo "$out" | grep -q "^VIOLATION property=$prop"; then v=RED; else v="GREEN(rc=$rc)"; fi
  first=$(echo "$out" | grep -m1 -B1 "^VIOLATION" | head -1 | sed 's/^ *//')
  echo "$prop $(basename $d .diff): $v in $((t1-t0))s  $first"
  echo "| $prop | $(basename $d .diff) | $v | $((t1-t0))s | seed ${VERIF_SEED:-1} | ${first:0:140} |" >> mutants/RESULTS.md
  if [ "$v" != RED ]; then echo "$out" | tail -5; fi
done
rm -rf found/$prop
