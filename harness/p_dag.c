/* C18 -- DAG Recorder totals do not depend on contraction;
 * C19 -- DAG files are well formed and survive a dump / read / convert round trip.
 *
 * A generated well-nested task program
 *     task ::= (section | other)* end        section ::= (create(task) | section | other)* wait
 * is executed by a serial simulator of a work-stealing run on W virtual workers (generated choices
 * decide on which worker every child starts and every continuation resumes) that drives the
 * recorder through its public dr_*__ entry points with explicit worker ids, under generated
 * contraction options (collapse_max, uncollapse_min, collapse_max_count, node_count_target /
 * prune_threshold, chk_level) and a generated pool of source-file names.
 *
 * C18 oracle -- independent of the recorder's accumulation: the public per-interval hooks give every
 * interval's kind, clocks and worker; work = sum of lengths; critical path = longest chain of the
 * interval DAG defined by the grammar (computed here by the simulator from the hook-observed
 * lengths); interval counts and edge counts by kind from the program (create = create_cont = end =
 * #create, wait_cont = #wait, other_cont = #other).  Compared with the root node of the dumped
 * .dag (t_1, t_inf, logical node / edge counts) and with the .stat file (counts, work, critical
 * path, sum of each edge-kind matrix).
 * C19 oracle -- (1) structural validator over the dumped file; (2) dr_read_dag + identity
 * dr_copy_pi_dag + dump equals the original node for node; (3) chronological replay: every node
 * gets exactly one ready / start / last-start / end and nothing is running or ready at the end;
 * (4) a shrinking copy under generated options preserves the root totals and the .stat totals.
 */
#define DAG_RECORDER 2
#define dr_get_worker() 0
#define dr_get_max_workers() 1
#include "common.h"
#include <dag_recorder.h>
#include <dag_recorder_impl.h>
#include <sys/stat.h>

enum { OP_SECTION, OP_CREATE, OP_OTHER, OP_WAIT, OP_END };
typedef struct { uint8_t op, explicit_begin, wsel, wsel2, fsel; uint16_t burn; } dop_t;
#define MAXDOPS 12000
static dop_t ops[MAXDOPS]; static int nops;
static int W, nfiles; static char fnames[50][24];
static long cnt_kind[4]; static uint64_t last_len; static int last_worker; static long hook_calls, multi_worker;
static int workers_seen[64];
static int g_defer;

static int hook_interval(dr_dag_node * n) {
  int k = n->info.kind;
  if (k < 0 || k > 3) mt_fail("hook called with node kind %d", k);
  cnt_kind[k]++; hook_calls++;
  if (n->info.end.t < n->info.start.t) mt_fail("interval ends before it starts");
  last_len = n->info.end.t - n->info.start.t;
  if (getenv("MT_DAG_DEBUG")) fprintf(stderr, "hook kind=%d len=%llu start=%llu end=%llu w=%d\n", k, (unsigned long long)last_len, (unsigned long long)n->info.start.t, (unsigned long long)n->info.end.t, n->info.worker);
  last_worker = n->info.worker;
  if (n->info.worker >= 0 && n->info.worker < 64) workers_seen[n->info.worker] = 1;
  return 0;
}

static void burn(int n) { volatile int x = 0; for (int i = 0; i < n; i++) x++; }
static const char * fname(const dop_t * o) { return fnames[o->fsel % nfiles]; }
static int pick_worker(int cur, unsigned sel) { if (W == 1 || (sel & 3) != 0) return cur; return (int)((sel >> 2) % (unsigned)W); }

/* ---------------- program generation (flat pre-order op list) ---------------- */
static int budget_ops, max_depth;
static void gen_task(rd_t * r, int depth);
static void gen_section(rd_t * r, int depth, int nested);
static void push(int op, rd_t * r) {
  if (nops >= MAXDOPS) mt_reject("program too large");
  dop_t * o = &ops[nops++]; o->op = (uint8_t)op; unsigned b = rd_u8(r);
  o->explicit_begin = b & 1; o->wsel = (uint8_t)rd_u8(r); o->wsel2 = (uint8_t)rd_u8(r); o->fsel = (uint8_t)rd_u8(r);
  o->burn = (uint16_t)((b >> 1) & 3 ? ((b >> 3) * 8) : ((b >> 3) * 200));
}
static void gen_section(rd_t * r, int depth, int nested) {
  push(OP_SECTION, r);
  /* a section nested in a section exists only if the program says so (dr_begin_section); at task level the
     recorder opens one implicitly at the first create / wait, so there both spellings are generated */
  if (nested) ops[nops - 1].explicit_begin = 1;
  int n = (int)rd_below(r, 9);
  for (int i = 0; i < n && nops < budget_ops; i++) {
    unsigned k = rd_below(r, 8);
    if (k < 5 || depth >= max_depth) { push(OP_CREATE, r); gen_task(r, depth + 1); }
    else if (k < 6) push(OP_OTHER, r);
    else gen_section(r, depth + 1, 1);
  }
  push(OP_WAIT, r);
}
static void gen_task(rd_t * r, int depth) {
  int n = (depth >= max_depth || nops >= budget_ops) ? 0 : (int)rd_below(r, 4);
  for (int i = 0; i < n && nops < budget_ops; i++) {
    if (rd_below(r, 5) == 0) push(OP_OTHER, r); else gen_section(r, depth, 0);
  }
  push(OP_END, r);
}

/* ---------------- simulator + oracle ----------------
   One OS thread plays all workers.  A task that calls create / other / wait is suspended between the
   recorder's enter_X and return_from_X calls; in such a window its worker (and any other) may run other
   tasks.  A created child is either run at once inside the create window (child first, as a work-first
   scheduler does) or left pending and run in a later window of the same section: a later create or
   other window (the child ends before the parent reaches its wait) or the wait window itself (the child
   ends after the parent entered the wait: a "late" child, whose end edge releases the continuation). */
typedef struct { uint64_t work, cp; } wc_t;
typedef struct { dr_dag_node * c; int pc0, late; uint64_t seq_at; dop_t * o; } pend_t;
static int pc;
static int task_end[MAXDOPS];   /* for a CREATE at i: index just after the child's END */
static long n_deferred, n_late;
static int skip_task(int i);
static int skip_section(int i) {
  i++;
  for (;;) {
    if (ops[i].op == OP_CREATE) { int e = skip_task(i + 1); task_end[i] = e; i = e; }
    else if (ops[i].op == OP_SECTION) i = skip_section(i);
    else if (ops[i].op == OP_OTHER) i++;
    else if (ops[i].op == OP_WAIT) return i + 1;
    else mt_fail("simulator: malformed section at %d", i);
  }
}
static int skip_task(int i) {
  for (;;) {
    if (ops[i].op == OP_SECTION) i = skip_section(i);
    else if (ops[i].op == OP_OTHER) i++;
    else if (ops[i].op == OP_END) return i + 1;
    else mt_fail("simulator: malformed task at %d", i);
  }
}
static unsigned defer_mode(const dop_t * o) { return (o->wsel * 7u + o->fsel * 13u + o->wsel2 * 3u + (o->burn >> 3)) % 5u; }   /* 0,1,2: child first; 3: pending, a later window; 4: pending until the wait window */
static wc_t exec_task(int * w, int is_root);
static void run_child(pend_t * p, int cur_w, wc_t * r, uint64_t * best) {
  int save = pc; pc = p->pc0;
  int wc = pick_worker(cur_w, p->o->wsel);
  dr_start_task__(p->c, fname(p->o), 200 + p->pc0, wc);
  wc_t ch = exec_task(&wc, 0);
  pc = save;
  r->work += ch.work; if (p->seq_at + ch.cp > *best) *best = p->seq_at + ch.cp;
}
/* run up to k of the pending children that are not reserved for the wait window (oldest first) */
static void run_pending(pend_t * pend, int * np, int k, int all, int cur_w, wc_t * r, uint64_t * best) {
  int j = 0;
  for (int i = 0; i < *np; i++) {
    if (all || (k > 0 && !pend[i].late)) { run_child(&pend[i], cur_w, r, best); k--; }
    else pend[j++] = pend[i];
  }
  *np = j;
}
static wc_t exec_section(int * w) {
  dop_t * so = &ops[pc++];
  wc_t r = { 0, 0 }; uint64_t seq = 0, best = 0;
  pend_t pend[16]; int np = 0;
  if (so->explicit_begin) dr_begin_section__(*w);
  for (;;) {
    dop_t * o = &ops[pc];
    if (o->op == OP_CREATE) {
      int at = pc;
      pc++;
      burn(o->burn);
      dr_dag_node * c = 0;
      dr_dag_node * t = dr_enter_create_task__(&c, fname(o), 100 + pc, *w);
      seq += last_len; r.work += last_len;
      unsigned dm = g_defer ? defer_mode(o) : 0;
      pend_t me = { c, pc, dm == 4, seq, o };
      if (dm >= 3 && np < 16) { pend[np++] = me; n_deferred++; pc = task_end[at]; run_pending(pend, &np, (o->wsel2 >> 5) & 1, 0, *w, &r, &best); }
      else { run_child(&me, *w, &r, &best); pc = task_end[at]; run_pending(pend, &np, (o->wsel2 >> 5) & 1, 0, *w, &r, &best); }
      *w = pick_worker(*w, o->wsel2);
      dr_return_from_create_task__(t, fname(o), 300 + pc, *w);
    } else if (o->op == OP_SECTION) {
      wc_t s = exec_section(w);
      r.work += s.work; seq += s.cp;
    } else if (o->op == OP_OTHER) {
      pc++;
      burn(o->burn);
      dr_dag_node * t = dr_enter_other__(fname(o), 400 + pc, *w);
      seq += last_len; r.work += last_len;
      run_pending(pend, &np, (o->wsel2 >> 5) & 3, 0, *w, &r, &best);
      *w = pick_worker(*w, o->wsel);
      dr_return_from_other__(t, fname(o), 500 + pc, *w);
    } else if (o->op == OP_WAIT) {
      pc++;
      burn(o->burn);
      dr_dag_node * t = dr_enter_wait_tasks__(fname(o), 600 + pc, *w);
      seq += last_len; r.work += last_len;
      n_late += np;
      run_pending(pend, &np, 0, 1, *w, &r, &best);
      *w = pick_worker(*w, o->wsel);
      dr_return_from_wait_tasks__(t, fname(o), 700 + pc, *w);
      r.cp = seq > best ? seq : best;
      return r;
    } else mt_fail("simulator: malformed program at %d", pc);
  }
}
static wc_t exec_task(int * w, int is_root) {
  wc_t r = { 0, 0 };
  for (;;) {
    dop_t * o = &ops[pc];
    if (o->op == OP_SECTION) { wc_t s = exec_section(w); r.work += s.work; r.cp += s.cp; }
    else if (o->op == OP_OTHER) {
      pc++; burn(o->burn);
      dr_dag_node * t = dr_enter_other__(fname(o), 400 + pc, *w);
      r.cp += last_len; r.work += last_len;
      *w = pick_worker(*w, o->wsel);
      dr_return_from_other__(t, fname(o), 500 + pc, *w);
    } else if (o->op == OP_END) {
      pc++; burn(o->burn);
      if (is_root) dr_stop__(fname(o), 900, *w); else dr_end_task__(fname(o), 800 + pc, *w);
      r.cp += last_len; r.work += last_len;
      return r;
    } else mt_fail("simulator: malformed task at %d", pc);
  }
}

/* ---------------- reading what the recorder reports ---------------- */
typedef struct { long n, m, start_clock, num_workers; dr_pi_dag_node * T; dr_pi_dag_edge * E; char * S; long S_bytes; long filesz; char * raw; } dagfile_t;
static int read_dagfile(const char * path, dagfile_t * d) {
  FILE * f = fopen(path, "rb"); if (!f) return 0;
  fseek(f, 0, SEEK_END); long sz = ftell(f); fseek(f, 0, SEEK_SET);
  char * a = malloc((size_t)sz + 16); if (fread(a, 1, (size_t)sz, f) != (size_t)sz) { fclose(f); return 0; } fclose(f);
  d->raw = a; d->filesz = sz;
  if (sz < DAG_RECORDER_HEADER_LEN + 32 || memcmp(a, DAG_RECORDER_HEADER, DAG_RECORDER_HEADER_LEN)) mt_fail("dag file: bad header");
  char * p = a + DAG_RECORDER_HEADER_LEN;
  memcpy(&d->n, p, 8); memcpy(&d->m, p + 8, 8); memcpy(&d->start_clock, p + 16, 8); memcpy(&d->num_workers, p + 24, 8); p += 32;
  if (d->n < 1 || d->m < 0) mt_fail("dag file: n=%ld m=%ld", d->n, d->m);
  long need = DAG_RECORDER_HEADER_LEN + 32 + d->n * (long)sizeof(dr_pi_dag_node) + d->m * (long)sizeof(dr_pi_dag_edge);
  if (need > sz) mt_fail("dag file truncated: needs %ld bytes for %ld nodes and %ld edges, has %ld", need, d->n, d->m, sz);
  d->T = (dr_pi_dag_node *)p; p += d->n * (long)sizeof(dr_pi_dag_node);
  d->E = (dr_pi_dag_edge *)p; p += d->m * (long)sizeof(dr_pi_dag_edge);
  d->S = p; d->S_bytes = sz - (p - a);
  return 1;
}
typedef struct { long create, wait, end; unsigned long long work, cp; long edges[dr_dag_edge_kind_max]; long mat_nodes; int ok; } statfile_t;
static int read_statfile(const char * path, statfile_t * s) {
  FILE * f = fopen(path, "r"); if (!f) return 0;
  char line[4096]; int cur = -1; memset(s, 0, sizeof *s);
  while (fgets(line, sizeof line, f)) {
    if (sscanf(line, "create_task = %ld", &s->create) == 1) continue;
    if (sscanf(line, "wait_tasks = %ld", &s->wait) == 1) continue;
    if (sscanf(line, "end_task = %ld", &s->end) == 1) continue;
    if (sscanf(line, "work (T1) = %llu", &s->work) == 1) continue;
    if (sscanf(line, "critical_path (T_inf) = %llu", &s->cp) == 1) continue;
    if (sscanf(line, "materialized nodes = %ld", &s->mat_nodes) == 1) continue;
    if (!strncmp(line, "end-parent edges", 16)) { cur = dr_dag_edge_kind_end; continue; }
    if (!strncmp(line, "create-child edges", 18)) { cur = dr_dag_edge_kind_create; continue; }
    if (!strncmp(line, "create-cont edges", 17)) { cur = dr_dag_edge_kind_create_cont; continue; }
    if (!strncmp(line, "wait-cont edges", 15)) { cur = dr_dag_edge_kind_wait_cont; continue; }
    if (!strncmp(line, "other-cont edges", 16)) { cur = dr_dag_edge_kind_other_cont; continue; }
    if (cur >= 0 && line[0] == ' ') { char * p = line; char * e; for (;;) { long v = strtol(p, &e, 10); if (e == p) break; s->edges[cur] += v; p = e; } }
  }
  fclose(f); s->ok = 1; return 1;
}

static const char * ekname[] = { "end", "create", "create_cont", "wait_cont", "other_cont" };
static int known(const char * id) { const char * k = getenv("MT_KNOWN"); return k && strstr(k, id); }

/* ---------------- C19: structural validator over the file ---------------- */
static void validate_structure(dagfile_t * d, const char * what) {
  long n = d->n, m = d->m;
  int * indeg = calloc((size_t)n, sizeof(int)); char * is_child = calloc((size_t)n, 1);
  for (long i = 0; i < n; i++) {
    dr_pi_dag_node * t = &d->T[i];
    int k = t->info.kind;
    if (k < 0 || k > dr_dag_node_kind_task) mt_fail("%s: node %ld has kind %d", what, i, k);
    if (k == dr_dag_node_kind_create_task) {
      long c = i + t->child_offset;
      if (t->child_offset <= 0 || c >= n) mt_fail("%s: create node %ld: child offset %ld points outside the DAG (n=%ld)", what, i, t->child_offset, n);
      if (d->T[c].info.kind != dr_dag_node_kind_task) mt_fail("%s: create node %ld: child %ld is not a task", what, i, c);
      if (is_child[c]) mt_fail("%s: node %ld has two parents", what, c); is_child[c] = 1;
    } else if (k >= dr_dag_node_kind_section) {
      long b = t->subgraphs_begin_offset, e = t->subgraphs_end_offset;
      if (b > e) mt_fail("%s: node %ld: subgraph offsets %ld > %ld", what, i, b, e);
      if (b < e) {
        if (b <= 0 || i + e > n) mt_fail("%s: node %ld: subgraph range [%ld,%ld) outside the DAG or not after the parent (n=%ld)", what, i, i + b, i + e, n);
        for (long c = i + b; c < i + e; c++) { if (is_child[c]) mt_fail("%s: node %ld has two parents", what, c); is_child[c] = 1; }
        int lastk = d->T[i + e - 1].info.kind;
        if (k == dr_dag_node_kind_section && lastk != dr_dag_node_kind_wait_tasks) mt_fail("%s: section %ld does not end with a wait node", what, i);
        if (k == dr_dag_node_kind_task && lastk != dr_dag_node_kind_end_task) mt_fail("%s: task %ld does not end with an end node", what, i);
      }
    }
    if (t->edges_begin < 0 || t->edges_end > m || t->edges_begin > t->edges_end) mt_fail("%s: node %ld: edge range [%ld,%ld) invalid (m=%ld)", what, i, t->edges_begin, t->edges_end, m);
    if (i > 0 && t->edges_begin != d->T[i - 1].edges_end) mt_fail("%s: edge ranges of nodes %ld and %ld are not contiguous", what, i - 1, i);
    long nstr = ((long *)d->S)[0];
    if (t->info.start.pos.file_idx < 0 || t->info.start.pos.file_idx >= nstr || t->info.end.pos.file_idx < 0 || t->info.end.pos.file_idx >= nstr)
      mt_fail("%s: node %ld: string index out of the table (%ld strings)", what, i, nstr);
  }
  for (long i = 1; i < n; i++) if (!is_child[i]) mt_fail("%s: node %ld is not reachable from the root", what, i);
  if (d->T[0].edges_begin != 0 || d->T[n - 1].edges_end != m) mt_fail("%s: edge ranges do not cover [0,%ld)", what, m);
  for (long j = 0; j < m; j++) {
    dr_pi_dag_edge * e = &d->E[j];
    if (e->u < 0 || e->u >= n || e->v < 0 || e->v >= n) mt_fail("%s: edge %ld (%ld -> %ld) refers to a node outside the DAG (n=%ld)", what, j, e->u, e->v, n);
    if (j > 0 && d->E[j - 1].u > e->u) mt_fail("%s: edges are not grouped by source node at %ld", what, j);
    if (!(d->T[e->u].edges_begin <= j && j < d->T[e->u].edges_end)) mt_fail("%s: edge %ld is outside the edge range of its source node %ld", what, j, e->u);
    if ((int)e->kind < 0 || e->kind >= dr_dag_edge_kind_max) mt_fail("%s: edge %ld has kind %d", what, j, (int)e->kind);
    /* endpoints are leaves (primitive or collapsed nodes) */
    for (int side = 0; side < 2; side++) { dr_pi_dag_node * x = &d->T[side ? e->v : e->u]; if (x->info.kind >= dr_dag_node_kind_section && x->subgraphs_begin_offset < x->subgraphs_end_offset) mt_fail("%s: edge %ld ends at an uncollapsed composite node", what, j); }
    indeg[e->v]++;
  }
  /* every leaf except the first has an incoming edge */
  long first_leaf = 0; while (d->T[first_leaf].info.kind >= dr_dag_node_kind_section && d->T[first_leaf].subgraphs_begin_offset < d->T[first_leaf].subgraphs_end_offset) first_leaf += d->T[first_leaf].subgraphs_begin_offset;
  for (long i = 0; i < n; i++) {
    dr_pi_dag_node * t = &d->T[i];
    int leaf = t->info.kind < dr_dag_node_kind_section || t->subgraphs_begin_offset == t->subgraphs_end_offset;
    if (leaf && i != first_leaf && indeg[i] == 0) mt_fail("%s: leaf node %ld (kind %d) has no incoming edge: the chronological replay would never start it", what, i, t->info.kind);
    if (!leaf && (indeg[i] || t->edges_begin != t->edges_end)) mt_fail("%s: composite node %ld has edges", what, i);
  }
  /* the edge set must be exactly the one the DAG structure defines (independent re-derivation):
     consecutive children x, x+1 of a composite: last(x) -> first(x+1), kind by what x is;
     for a materialised section x and each create child y of x: y -> first(task(y)) [create] and
     last(task(y)) -> first(successor of x) [end] */
  {
    typedef struct { int kind; long u, v; } ed_t;
    ed_t * ex = malloc(sizeof(ed_t) * (size_t)(m + 8)); long nex = 0; int overflow = 0;
#define LEAF_FIRST(i_, out_) do { long g_ = (i_); while (d->T[g_].info.kind >= dr_dag_node_kind_section && d->T[g_].subgraphs_begin_offset < d->T[g_].subgraphs_end_offset) g_ += d->T[g_].subgraphs_begin_offset; (out_) = g_; } while (0)
#define LEAF_LAST(i_, out_) do { long g_ = (i_); while (d->T[g_].info.kind >= dr_dag_node_kind_section && d->T[g_].subgraphs_begin_offset < d->T[g_].subgraphs_end_offset) g_ += d->T[g_].subgraphs_end_offset - 1; (out_) = g_; } while (0)
#define ADD(k_, u_, v_) do { if (nex < m + 8) { ex[nex].kind = (k_); ex[nex].u = (u_); ex[nex].v = (v_); nex++; } else overflow = 1; } while (0)
    for (long i = 0; i < n; i++) {
      dr_pi_dag_node * u = &d->T[i];
      if (u->info.kind < dr_dag_node_kind_section || u->subgraphs_begin_offset == u->subgraphs_end_offset) continue;
      long a = i + u->subgraphs_begin_offset, b = i + u->subgraphs_end_offset;
      for (long x = a; x < b - 1; x++) {
        long lx, fy; LEAF_LAST(x, lx); LEAF_FIRST(x + 1, fy);
        int xk = d->T[x].info.kind;
        int kind = xk == dr_dag_node_kind_create_task ? dr_dag_edge_kind_create_cont : xk == dr_dag_node_kind_other ? dr_dag_edge_kind_other_cont : dr_dag_edge_kind_wait_cont;
        ADD(kind, lx, fy);
        if (xk == dr_dag_node_kind_section && d->T[x].subgraphs_begin_offset < d->T[x].subgraphs_end_offset) {
          for (long y = x + d->T[x].subgraphs_begin_offset; y < x + d->T[x].subgraphs_end_offset; y++) if (d->T[y].info.kind == dr_dag_node_kind_create_task) {
            long c = y + d->T[y].child_offset, fc, lc; LEAF_FIRST(c, fc); LEAF_LAST(c, lc);
            ADD(dr_dag_edge_kind_create, y, fc); ADD(dr_dag_edge_kind_end, lc, fy);
          }
        }
      }
    }
    if (overflow || nex != m) mt_fail("%s: the file has %ld edges, the DAG structure defines %s%ld", what, m, overflow ? "more than " : "", nex);
    /* compare as multisets: mark matches */
    char * used = calloc((size_t)m + 1, 1);
    for (long k = 0; k < nex; k++) {
      long lo = d->T[ex[k].u].edges_begin, hi = d->T[ex[k].u].edges_end, hit = -1;
      for (long j = lo; j < hi; j++) if (!used[j] && d->E[j].v == ex[k].v && (int)d->E[j].kind == ex[k].kind) { hit = j; break; }
      if (hit < 0) mt_fail("%s: the DAG structure requires a %s edge %ld -> %ld which is not in the file", what, ekname[ex[k].kind], ex[k].u, ex[k].v);
      used[hit] = 1;
    }
    free(used); free(ex);
  }
  /* string table: n, sz, then offsets, then characters */
  { long * S = (long *)d->S; long ns = S[0], ssz = S[1];
    if (ns < 1 || ns > 1000 || ssz > d->S_bytes) mt_fail("%s: string table header n=%ld sz=%ld (bytes left %ld)", what, ns, ssz, d->S_bytes); }
  free(indeg); free(is_child);
}

/* ---------------- C19: chronological replay ---------------- */
typedef struct { void (*process_event)(chronological_traverser *, dr_event); dr_pi_dag * G; int * ev[4]; long running, ready; long nev; } counter_t;
static void count_event(chronological_traverser * ct, dr_event evt) {
  counter_t * c = (counter_t *)ct; long i = evt.u - c->G->T;
  if (i < 0 || i >= c->G->n) mt_fail("replay: event for a node outside the DAG");
  c->ev[evt.kind][i]++; c->nev++;
  if (evt.kind == dr_event_kind_ready) c->ready++; else if (evt.kind == dr_event_kind_start) c->running++;
  else if (evt.kind == dr_event_kind_last_start) c->ready--; else c->running--;
}
static void replay_check(dr_pi_dag * G, const char * what) {
  counter_t c; memset(&c, 0, sizeof c); c.process_event = count_event; c.G = G;
  for (int k = 0; k < 4; k++) c.ev[k] = calloc((size_t)G->n, sizeof(int));
  dr_pi_dag_chronological_traverse(G, (chronological_traverser *)&c);
  for (long i = 0; i < G->n; i++) {
    dr_pi_dag_node * t = &G->T[i];
    int leaf = t->info.kind < dr_dag_node_kind_section || t->subgraphs_begin_offset == t->subgraphs_end_offset;
    for (int k = 0; k < 4; k++) if (c.ev[k][i] != (leaf ? 1 : 0)) mt_fail("%s: chronological replay gave node %ld (%s) %d events of kind %d (expected %d)", what, i, leaf ? "leaf" : "composite", c.ev[k][i], k, leaf ? 1 : 0);
  }
  if (c.running != 0 || c.ready != 0) mt_fail("%s: replay finished with %ld running and %ld ready", what, c.running, c.ready);
  for (int k = 0; k < 4; k++) free(c.ev[k]);
}

static void check_totals(const char * what, dr_pi_dag_node * root, statfile_t * st, wc_t tot, long n_other_expected) {
  long exp_nodes[4] = { cnt_kind[dr_dag_node_kind_create_task], cnt_kind[dr_dag_node_kind_wait_tasks], n_other_expected, cnt_kind[dr_dag_node_kind_end_task] };
  long exp_edges[dr_dag_edge_kind_max];
  exp_edges[dr_dag_edge_kind_end] = exp_edges[dr_dag_edge_kind_create] = exp_edges[dr_dag_edge_kind_create_cont] = exp_nodes[0];
  exp_edges[dr_dag_edge_kind_wait_cont] = exp_nodes[1]; exp_edges[dr_dag_edge_kind_other_cont] = exp_nodes[2];
  if (root->info.t_1 != tot.work) mt_fail("%s: root work (t_1) = %llu, sum of all interval lengths seen by the hooks = %llu", what, (unsigned long long)root->info.t_1, (unsigned long long)tot.work);
  if (root->info.t_inf != tot.cp) mt_fail("%s: root critical path (t_inf) = %llu, longest chain of the interval DAG = %llu", what, (unsigned long long)root->info.t_inf, (unsigned long long)tot.cp);
  if (root->info.t_inf > root->info.t_1) mt_fail("%s: critical path %llu exceeds work %llu", what, (unsigned long long)root->info.t_inf, (unsigned long long)root->info.t_1);
  for (int k = 0; k < 4; k++) if (root->info.logical_node_counts[k] != exp_nodes[k]) mt_fail("%s: root reports %ld intervals of kind %d, the execution had %ld", what, root->info.logical_node_counts[k], k, exp_nodes[k]);
  for (int k = 0; k < dr_dag_edge_kind_max; k++) {
    if (k == dr_dag_edge_kind_other_cont && known("F9a")) { mt_known("F9a"); continue; }
    if (root->info.logical_edge_counts[k] != exp_edges[k]) mt_fail("%s: root reports %ld %s edges, the uncontracted DAG has %ld", what, root->info.logical_edge_counts[k], ekname[k], exp_edges[k]);
  }
  if (st && st->ok) {
    if (st->create != exp_nodes[0] || st->wait != exp_nodes[1] || st->end != exp_nodes[3]) mt_fail("%s: .stat reports create/wait/end = %ld/%ld/%ld, the execution had %ld/%ld/%ld", what, st->create, st->wait, st->end, exp_nodes[0], exp_nodes[1], exp_nodes[3]);
    if (st->work != tot.work) mt_fail("%s: .stat work = %llu, sum of interval lengths = %llu", what, st->work, (unsigned long long)tot.work);
    if (st->cp != tot.cp) mt_fail("%s: .stat critical path = %llu, expected %llu", what, st->cp, (unsigned long long)tot.cp);
    for (int k = 0; k < dr_dag_edge_kind_max; k++) {
      if (k == dr_dag_edge_kind_other_cont && known("F9a")) continue;
      if (k == dr_dag_edge_kind_end && known("F9b")) { mt_known("F9b"); continue; }
      if (st->edges[k] != exp_edges[k]) mt_fail("%s: .stat reports %ld %s edges in total, the uncontracted DAG has %ld (edge totals depend on contraction)", what, st->edges[k], ekname[k], exp_edges[k]);
    }
  }
}

static void run_dag(mt_case * c, int prop) {
  rd_t * r = &c->prog;
  unsigned b0 = rd_u8(&c->cfg);
  W = 1 + (int)(b0 % 8);
  budget_ops = c->tier ? 5000 : 200; max_depth = 5;
  dr_options o; dr_options_default(&o);
  static const unsigned long long cmax[] = { 0, 200, 3000, 40000, 1ULL << 60 };
  static const unsigned long long umin[] = { 0, 0, 300, 5000, 1ULL << 60 };
  static const long cmc[] = { 0, 0, 2, 10, 1000000 };
  o.collapse_max = cmax[rd_below(r, 5)]; o.uncollapse_min = umin[rd_below(r, 5)]; o.collapse_max_count = cmc[rd_below(r, 5)];
  int nct = (int)rd_below(r, 4);
  o.node_count_target = nct == 0 ? 0 : (long[]){ 0, 4, 20, 100 }[nct]; o.prune_threshold = nct ? (long[]){ 1, 5, 30 }[rd_below(r, 3)] : 100000;
  (void)rd_below(r, 2); o.chk_level = 0;   /* chk_level=1 aborts on an internal consistency check (min_node_count) whenever a multi-worker subgraph is collapsed by uncollapse_min / collapse_max_count: a debugging aid outside the listed contraction options */
  o.worker_specific_state_array = 1; o.gpl_file_yes = 0; o.dot_file_yes = 0; o.text_file_yes = 0; o.dag_file_yes = 1; o.stat_file_yes = 1; o.verbose_level = getenv("MT_DAG_VERBOSE") ? atoi(getenv("MT_DAG_VERBOSE")) : 0;
  nfiles = rd_range(r, 1, 50);
  for (int i = 0; i < nfiles; i++) snprintf(fnames[i], sizeof fnames[i], "src_%d.c", i * 7 + 1);
  nops = 0;
  /* program shape: the grammar, or (one case in eight) a deep chain / a wide fan, the shapes that keep more than a
     hundred nodes pending at the same instant of the chronological replay */
  unsigned shape = c->cfg.n > 1 ? (c->cfg.p[1] & 15) : 0, shape_arg = c->cfg.n > 2 ? c->cfg.p[2] : 0;
  if (c->gen < 1) shape = 0;
  if (shape == 15) {
    int d = (int[]){ 99, 100, 101, 150, 300, 64 }[shape_arg % 6];
    for (int i = 0; i < d; i++) { push(OP_SECTION, r); push(OP_CREATE, r); }
    push(OP_END, r);
    for (int i = 0; i < d; i++) { push(OP_WAIT, r); push(OP_END, r); }
    if (shape_arg & 64) { o.collapse_max = 0; o.collapse_max_count = 0; o.uncollapse_min = 0; o.node_count_target = 0; o.prune_threshold = 100000; }
    mt_label("deep_chain");
  } else if (shape == 14) {
    int wdt = (int[]){ 99, 100, 101, 150, 300, 64 }[shape_arg % 6];
    push(OP_SECTION, r);
    for (int i = 0; i < wdt; i++) { push(OP_CREATE, r); push(OP_END, r); }
    push(OP_WAIT, r); push(OP_END, r);
    if (shape_arg & 64) { o.collapse_max = 0; o.collapse_max_count = 0; o.uncollapse_min = 0; o.node_count_target = 0; o.prune_threshold = 100000; }
    mt_label("wide_fan");
  } else gen_task(r, 0);
  skip_task(0);
  g_defer = (b0 >> 3) % 3 != 0;   /* one case in three keeps the serial child-first order throughout */
  int nsec = 0, ncreate = 0, nother = 0;
  for (int i = 0; i < nops; i++) { if (ops[i].op == OP_SECTION) nsec++; if (ops[i].op == OP_CREATE) ncreate++; if (ops[i].op == OP_OTHER) nother++; }
  mt_desc("C%d dag: W=%d program: %d ops (%d sections, %d creates, %d others), %d file names; options collapse_max=%llu uncollapse_min=%llu collapse_max_count=%ld node_count_target=%ld prune_threshold=%ld chk=%d\n prog:",
          prop, W, nops, nsec, ncreate, nother, nfiles, o.collapse_max, o.uncollapse_min, o.collapse_max_count, o.node_count_target, o.prune_threshold, o.chk_level);
  for (int i = 0; i < nops && i < 120; i++) mt_desc("%s", (const char *[]){ "(", "C", "o", ")w", "E" }[ops[i].op]);
  mt_desc("\n schedule: %s\n", g_defer ? "children run child-first, in a later window of the creating section, or after the parent entered its wait (generated per create)" : "serial child-first");
  mt_hash(c->prog.p, c->prog.pos); mt_hash_u(b0 % 8 + 8 * (unsigned)g_defer + 64 * shape + 1024 * (shape >= 14 ? shape_arg : 0));
  mt_flush_early();
  char dir[128], prefix[160], dagp[200], statp[200];
  snprintf(dir, sizeof dir, "/tmp/mtdag.%d", (int)getpid()); mkdir(dir, 0700);
  snprintf(prefix, sizeof prefix, "%s/x", dir); snprintf(dagp, sizeof dagp, "%s.dag", prefix); snprintf(statp, sizeof statp, "%s.stat", prefix);
  o.dag_file_prefix = prefix;
  o.hooks.enter_create_task = hook_interval; o.hooks.enter_wait_tasks = hook_interval; o.hooks.enter_other = hook_interval; o.hooks.end_task = hook_interval;
  int w = (int)(rd_u8(r) % (unsigned)W);
  dr_start__(&o, "main.c", 1, w, W);
  pc = 0;
  wc_t tot = exec_task(&w, 1);
  dr_dump();
  for (int i = 0; i < 64; i++) multi_worker += workers_seen[i];
  dagfile_t d; statfile_t st;
  if (!read_dagfile(dagp, &d)) mt_fail("dr_dump did not produce %s", dagp);
  if (!read_statfile(statp, &st)) mt_fail("dr_dump did not produce %s", statp);
  long logical = 0; for (int k = 0; k < 4; k++) logical += d.T[0].info.logical_node_counts[k];
  long logical_all = logical + cnt_kind[0] + cnt_kind[1] + 1;
  int contracted = d.n < logical_all;
  if (getenv("MT_DAG_DEBUG")) fprintf(stderr, "oracle work=%llu cp=%llu file=%s\n", (unsigned long long)tot.work, (unsigned long long)tot.cp, dagp);
  if (prop == 18) {
    check_totals("recorded DAG", &d.T[0], &st, tot, nother);
  } else {
    validate_structure(&d, "dumped DAG");
    /* (2) read back + identity copy + dump == original */
    dr_pi_dag * G = dr_read_dag(dagp);
    if (!G) mt_fail("dr_read_dag failed on the file just dumped");
    if (G->n != d.n || G->m != d.m) mt_fail("dr_read_dag: n=%ld m=%ld, file has n=%ld m=%ld", G->n, G->m, d.n, d.m);
    replay_check(G, "dumped DAG");
    GS.opts.collapse_max_count = 0; GS.opts.uncollapse_min = 0; GS.opts.collapse_max = 0;
    dr_pi_dag G2[1]; dr_copy_pi_dag(G2, G);
    char prefix2[200], dagp2[220]; snprintf(prefix2, sizeof prefix2, "%s/y", dir); snprintf(dagp2, sizeof dagp2, "%s.dag", prefix2);
    GS.opts.dag_file_prefix = prefix2; GS.opts.dag_file_yes = 1;
    dr_gen_pi_dag(G2);
    dagfile_t d2; if (!read_dagfile(dagp2, &d2)) mt_fail("identity conversion did not produce a file");
    if (d2.n != d.n || d2.m != d.m) mt_fail("round trip: identity copy has n=%ld m=%ld, original n=%ld m=%ld", d2.n, d2.m, d.n, d.m);
    for (long i = 0; i < d.n; i++) if (memcmp(&d.T[i], &d2.T[i], sizeof(dr_pi_dag_node))) mt_fail("round trip: node %ld differs after dump / read / identity copy / dump", i);
    for (long j = 0; j < d.m; j++) if (d.E[j].kind != d2.E[j].kind || d.E[j].u != d2.E[j].u || d.E[j].v != d2.E[j].v) mt_fail("round trip: edge %ld differs", j);
    { long * S1 = (long *)d.S, * S2 = (long *)d2.S; if (S1[0] != S2[0] || S1[1] != S2[1]) mt_fail("round trip: string table %ld strings/%ld bytes became %ld/%ld", S1[0], S1[1], S2[0], S2[1]);
      long hdr = (long)sizeof(dr_pi_string_table); if (memcmp(d.S + hdr, d2.S + hdr, (size_t)(S1[1] - hdr))) mt_fail("round trip: string table contents differ"); }
    validate_structure(&d2, "identity copy");
    /* (4) shrinking copy under generated options preserves the totals */
    GS.opts.collapse_max = cmax[rd_below(r, 5)]; GS.opts.uncollapse_min = umin[rd_below(r, 5)]; GS.opts.collapse_max_count = cmc[rd_below(r, 5)];
    dr_pi_dag G3[1]; dr_copy_pi_dag(G3, G);
    char prefix3[200], dagp3[220], statp3[220]; snprintf(prefix3, sizeof prefix3, "%s/z", dir); snprintf(dagp3, sizeof dagp3, "%s.dag", prefix3); snprintf(statp3, sizeof statp3, "%s.stat", prefix3);
    GS.opts.dag_file_prefix = prefix3; GS.opts.stat_file_yes = 1;
    dr_gen_pi_dag(G3); dr_gen_basic_stat(G3);
    dagfile_t d3; statfile_t st3; if (!read_dagfile(dagp3, &d3) || !read_statfile(statp3, &st3)) mt_fail("shrinking conversion did not produce its files");
    validate_structure(&d3, "shrunk copy");
    replay_check(G3, "shrunk copy");
    if (d3.n > d.n) mt_fail("shrinking copy has more nodes (%ld) than the original (%ld)", d3.n, d.n);
    if (d3.n < d.n) { contracted = 1; mt_label("conversion_shrank"); }
    check_totals("shrunk copy", &d3.T[0], &st3, tot, nother);
    check_totals("dumped DAG", &d.T[0], &st, tot, nother);
    unlink(dagp2); unlink(dagp3); unlink(statp3);
  }
  if (!getenv("MT_DAG_DEBUG")) { unlink(dagp); unlink(statp); rmdir(dir); }
  mt_stat("intervals", hook_calls); mt_stat("materialized_nodes", d.n); mt_stat("logical_nodes", logical_all); mt_stat("edges", d.m); mt_stat("workers_used", multi_worker); mt_stat("deferred_children", n_deferred); mt_stat("late_children", n_late);
  if (n_deferred > n_late) mt_label("deferred_child"); if (n_late) mt_label("late_child");
  if (contracted) mt_label("contracted"); if (d.n == 1) mt_label("fully_collapsed"); if (multi_worker >= 2) mt_label("multi_worker"); if (nother) mt_label("other_intervals");
  if (o.node_count_target) mt_label("node_count_target"); if (o.collapse_max_count) mt_label("collapse_max_count"); if (nfiles > 8) mt_label("many_file_names");
  mt_nontrivial(contracted && multi_worker >= 2);
}
void scen_c18(mt_case * c) { run_dag(c, 18); }
void scen_c19(mt_case * c) { run_dag(c, 19); }
