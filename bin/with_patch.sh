#!/bin/bash
# with_patch.sh <patch.diff> <command...> : run <command> with REPO pointing at a scratch
# worktree of /repo that has <patch.diff> applied (used for sensitivity tests; never touches /repo)
set -e
patch=$(readlink -f "$1"); shift
wt=$(mktemp -d /tmp/mtwt.XXXXXX)
mb=$(mktemp -d /tmp/mtmb.XXXXXX)
cleanup() { git -C /repo worktree remove --force $wt >/dev/null 2>&1 || true; rm -rf $wt $mb; git -C /repo worktree prune; }
trap cleanup EXIT
git -C /repo worktree add --detach -q $wt HEAD
cp /repo/src/config.h $wt/src/config.h
git -C $wt apply "$patch"
mkdir -p $mb/drivers && cp -a /verif/build/drivers/. $mb/drivers/ 2>/dev/null || true
REPO=$wt MT_BUILD=$mb "$@"
