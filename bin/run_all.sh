#!/bin/bash
# run_all.sh [quick|thorough] : run every registered check on /repo, print a summary line each
tier=${1:-quick}
cd /verif
for p in $(python3 -c "import sys; sys.path.insert(0,'bin'); from checkcfg import PROPS; print(' '.join(sorted(PROPS)))"); do
  out=$(bin/check $p --tier $tier 2>&1); rc=$?
  echo "$(echo "$out" | grep "^$p " | tail -1) rc=$rc"
  if [ $rc -ne 0 ]; then echo "$out" | grep -E "VIOLATION|KNOWN|oracle|crash" | head -5; fi
done
