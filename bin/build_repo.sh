#!/bin/bash
# build_repo.sh <variant> : build libmyth from /repo's *current working tree* into
# /verif/build/<variant>/ (libmyth.a, libmyth.so).  Always keyed by a hash of the
# sources, so an edited tree is rebuilt and an unchanged one is reused.
#   v0  gcc -O0 -g -DMYTH_VERIF           (controlled-schedule checks)
#   v2  gcc -O2 -g -DMYTH_VERIF
#   va  clang -O1 -g ASan+UBSan -DMYTH_VERIF
#   n0  gcc -O0 -g  (guard off)
#   ld  v0 flags + wrapper sources, -DMYTH_WRAP=MYTH_WRAP_LD
#   dl  v0 flags + wrapper sources, -DMYTH_WRAP=MYTH_WRAP_DL
set -e
variant=${1:?variant}
REPO=${REPO:-/repo}
VERIF=$(cd "$(dirname "$0")/.." && pwd)
out=${MT_BUILD:-$VERIF/build}/$variant
wrap=MYTH_WRAP_VANILLA
extra_srcs=""
case $variant in
  v0) cc=gcc;   flags="-O0 -g -DMYTH_VERIF" ;;
  v2) cc=gcc;   flags="-O2 -g -DMYTH_VERIF" ;;
  va) cc=clang; flags="-O1 -g -fsanitize=address,undefined -fno-sanitize=signed-integer-overflow,alignment,bounds -fno-omit-frame-pointer -DMYTH_VERIF -Dreal_pthread_attr_getstack=myth_real_pthread_attr_getstack" ;;
  c0) cc=clang; flags="-O0 -g -DMYTH_VERIF" ;;
  c2) cc=clang; flags="-O2 -g -DMYTH_VERIF" ;;
  n0) cc=gcc;   flags="-O0 -g" ;;
  n2) cc=gcc;   flags="-O2 -g" ;;
  ld) cc=gcc;   flags="-O0 -g -DMYTH_VERIF"; wrap=MYTH_WRAP_LD; extra_srcs="myth_wrap_pthread.c myth_wrap_malloc.c myth_wrap_socket.c" ;;
  dl) cc=gcc;   flags="-O0 -g -DMYTH_VERIF"; wrap=MYTH_WRAP_DL; extra_srcs="myth_wrap_pthread.c myth_wrap_malloc.c myth_wrap_socket.c" ;;
  *) echo "unknown variant $variant" >&2; exit 2 ;;
esac
SRCS="myth_log.c myth_sched.c myth_internal_barrier.c myth_bind_worker.c myth_worker.c myth_sync.c myth_init.c myth_misc.c myth_tls.c myth_thread.c myth_context.c myth_if_native.c myth_real.c myth_eco.c $extra_srcs"
if [ ! -f $REPO/src/config.h ]; then
  # config.h is produced by configure; regenerate it in a scratch dir when absent
  tmp=$(mktemp -d /tmp/mtcfg.XXXXXX)
  (cd $tmp && $REPO/configure -q >/dev/null 2>&1 && cp src/config.h $REPO/src/config.h) || { echo "cannot produce config.h" >&2; rm -rf $tmp; exit 2; }
  rm -rf $tmp
fi
h=$( (cd $REPO && cat src/*.c src/*.h src/*.S include/myth/*.h src/profiler/*.c src/profiler/*.h 2>/dev/null; echo "$variant $flags $cc") | sha1sum | cut -c1-16)
if [ -f $out/.hash ] && [ "$(cat $out/.hash)" = "$h" ] && [ -f $out/libmyth.a ]; then
  exit 0
fi
rm -rf $out; mkdir -p $out
pids=""
for s in $SRCS; do
  $cc -c -fPIC -D_GNU_SOURCE -D_XOPEN_SOURCE -D_DARWIN_C_SOURCE -DHAVE_CONFIG_H -DPIC \
     -I$REPO/include -I$REPO/src -DMYTH_WRAP=$wrap -Wno-error -w $flags \
     $REPO/src/$s -o $out/${s%.c}.o &
  pids="$pids $!"
done
for p in $pids; do wait $p || { echo "compile failed ($variant)" >&2; exit 2; }; done
ar rcs $out/libmyth.a $out/*.o
# DAG recorder (profiler) as a static library
mkdir -p $out/dr
pids=""
for s in dag_recorder.c dag_recorder_no_inl.c chronological.c dr_dump.c gen_stat.c gen_dot.c gen_gpl.c gen_text.c read_dag.c options.c interpolate_counters.c papi_counters.c; do
  $cc -c -fPIC -D_GNU_SOURCE -DHAVE_CONFIG_H -I$REPO/include -I$REPO/src -I$REPO/src/profiler -w $flags $REPO/src/profiler/$s -o $out/dr/${s%.c}.o &
  pids="$pids $!"
done
for p in $pids; do wait $p || { echo "compile failed (profiler, $variant)" >&2; exit 2; }; done
ar rcs $out/libdr.a $out/dr/*.o
$cc -shared $flags -o $out/libmyth.so $out/*.o -lpthread -ldl -lrt
echo "$h" > $out/.hash
