/* C04 -- mutex: mutual exclusion, no lost wake-up, non-blocking trylock.
 *
 * Program: T threads x M mutexes; each thread runs a script of critical sections acquired by
 * lock / trylock (retry-with-yield or give-up) / timedlock (past, near, far deadline on a
 * virtual clock), optionally nested in increasing mutex index (deadlock-free by construction),
 * with yields inside and between sections.
 * Oracle: occupancy witness per mutex; a non-atomic read-yield-write counter per mutex equals
 * the number of completed sections; every acquire returns (hang verdicts from the engine);
 * a failed trylock / timedlock is a violation only if no other thread's "possibly holding"
 * interval (entry of its successful acquire call .. return of its unlock call) overlaps the
 * failed call (interval model over the call log); a trylock must not switch the calling thread
 * away (observer on the block / yield entry points of the worker it runs on).
 */
#include "scen_util.h"

enum { A_LOCK, A_TRY_RETRY, A_TRY_GIVEUP, A_TIMED_PAST, A_TIMED_NEAR, A_TIMED_FAR, A_NKINDS };
static const char * akind[] = { "lock", "trylock+retry", "trylock/giveup", "timedlock(past)", "timedlock(near)", "timedlock(far)" };

typedef struct { int m1, k1, m2, k2, yin, yout; } section_t;   /* m2 < 0: not nested */
#define MAXSEC 12
static struct { int T, M; int nsec[16]; section_t sec[16][MAXSEC]; } P;

static myth_mutex_t mtx[4];
static witness_t wit[4];
static volatile long cnt[4];
static long model_cnt[4];         /* updated under the mutex */
static int migrated, blocked_cnt;

/* call log for the interval model */
enum { E_ACQ_ENTER, E_ACQ_OK, E_ACQ_FAIL, E_UNL_RET };
typedef struct { int th, m, ev, trykind; } logent_t;
#define MAXLOG 65536
static logent_t lg[MAXLOG]; static volatile int nlog;
static void logev(int th, int m, int ev, int trykind) {
  int i = __sync_fetch_and_add(&nlog, 1);
  if (i < MAXLOG) { lg[i].th = th; lg[i].m = m; lg[i].ev = ev; lg[i].trykind = trykind; }
}

/* virtual clock: every reading advances 1 ms */
static volatile long clock_reads;
#define CLOCK_BASE 1000000L
static int vclock(struct timespec * ts) {
  long r = __sync_add_and_fetch(&clock_reads, 1);
  ts->tv_sec = CLOCK_BASE + r / 1000; ts->tv_nsec = (r % 1000) * 1000000L;
  return 0;
}
extern int (*volatile myth_verif_clock_fn)(struct timespec *);

/* trylock must not block: flag per worker (a thread cannot leave its worker without a switch) */
static volatile int in_try[MV_MAXP];
/* "threads blocked on a mutex do not occupy a worker", polling flavour: a timedlock that finds the mutex busy and
   has nothing in its own run queue must offer the worker to the rest of the program, i.e. try to steal, before it
   polls again (armed at the MVS_TIMEDLOCK hook, which sits right before the yield) */
static int tl_armed[MV_MAXP]; static long st_tl_polls, st_tl_polls_empty;
static long lock_iters[MV_MAXP], lock_iter_limit;
static void observer(int id, int me) {
  if (me >= 0 && in_try[me] && (id == MVP_BLOCK_A || id == MVP_YIELD_A || id == MVP_JOIN_B))
    mt_fail("trylock switched the calling thread away (hook %d reached inside myth_mutex_trylock)", id);
  if (me < 0 || me >= MV_MAXP) return;
  /* myth_mutex_lock retries its loop only when another thread changed the lock word in between; a call that goes
     round more often than the whole program changes the word is polling instead of blocking */
  if (id == MVP_MUTEX_LOCK_A) { if (++lock_iters[me] > lock_iter_limit && lock_iter_limit) mt_fail("myth_mutex_lock went through its retry loop %ld times in one call (the whole program changes the lock word at most %ld times): the caller polls the mutex and keeps its worker instead of blocking", lock_iters[me], lock_iter_limit); }
  else if (id == MVP_BLOCK_A) lock_iters[me] = 0;
  /* disarmed by a steal attempt, or by the yield switching to another thread after all: the queue can look empty at
     the hook while a thief holds a reservation on its only entry (base already advanced) and then backs off */
  if (id == MVP_STEAL || id == MVP_YIELD_CB_A) tl_armed[me] = 0;
  else if (id == MVP_MUTEX_TRY_A && tl_armed[me])
    mt_fail("a thread waiting in myth_mutex_timedlock polled the mutex again without having tried to steal, although the run queue of its worker %d was empty: it keeps the worker to itself while runnable threads may sit in other queues", me);
}
static void spin_obs(int id, int me) {
  if (id != MVS_TIMEDLOCK || me < 0 || me >= MV_MAXP) return;
  st_tl_polls++;
  tl_armed[me] = (mt_queue_len(me) == 0);
  if (tl_armed[me]) st_tl_polls_empty++;
}

/* returns 1 if acquired */
static int acquire(int th, int m, int kind) {
  int w0 = myth_get_worker_num();
  unsigned long b0 = HIT(MVP_BLOCK_CB_B);
  int ok = 0;
  switch (kind) {
  case A_LOCK:
    { int me0 = mv_me(); if (me0 >= 0) lock_iters[me0] = 0; }
    logev(th, m, E_ACQ_ENTER, 0);
    if (myth_mutex_lock(&mtx[m]) != 0) mt_fail("myth_mutex_lock returned an error");
    ok = 1; break;
  case A_TRY_RETRY: case A_TRY_GIVEUP:
    for (;;) {
      logev(th, m, E_ACQ_ENTER, 1);
      int me = mv_me(); if (me >= 0) in_try[me] = 1;
      int r = myth_mutex_trylock(&mtx[m]);
      if (me >= 0) in_try[me] = 0;
      if (r == 0) { ok = 1; break; }
      if (r != EBUSY) mt_fail("trylock returned %d (neither 0 nor EBUSY)", r);
      logev(th, m, E_ACQ_FAIL, 1);
      if (kind == A_TRY_GIVEUP) break;
      mv_spin(US_GATE);       /* user-level wait: must let others run */
      myth_yield();
    }
    break;
  default: {
    struct timespec ts;
    long r = clock_reads;
    long dl = (kind == A_TIMED_PAST) ? -1000 : (kind == A_TIMED_NEAR ? r + 3 : r + 1000000000L);
    if (dl < 0) { ts.tv_sec = CLOCK_BASE - 1; ts.tv_nsec = 0; }
    else { ts.tv_sec = CLOCK_BASE + dl / 1000; ts.tv_nsec = (dl % 1000) * 1000000L; }
    if (kind == A_TIMED_FAR && (th + m) % 3 == 1) { ts.tv_sec = 0x7fffffffffffffffL; ts.tv_nsec = 999999999L; }   /* the "never" idioms */
    if (kind == A_TIMED_FAR && (th + m) % 3 == 2) { ts.tv_sec = 20000000000L; ts.tv_nsec = 0; }
    logev(th, m, E_ACQ_ENTER, 2);
    int rc = myth_mutex_timedlock(&mtx[m], &ts);
    if (rc == 0) ok = 1;
    else if (rc == ETIMEDOUT) { logev(th, m, E_ACQ_FAIL, 2); if (kind == A_TIMED_FAR) mt_fail("timedlock with a far deadline timed out"); }
    else mt_fail("timedlock returned %d", rc);
  } }
  if (ok) {
    logev(th, m, E_ACQ_OK, 0);
    wit_enter(&wit[m], "acquire");
    if (HIT(MVP_BLOCK_CB_B) != b0 && kind == A_LOCK) blocked_cnt++;
    if (myth_get_worker_num() != w0) migrated++;
  }
  mv_progress();
  return ok;
}
static void release(int th, int m) {
  wit_leave(&wit[m], "unlock");
  { int ur = myth_mutex_unlock(&mtx[m]); if (ur != 0) mt_fail("myth_mutex_unlock of a mutex held by the caller returned %d (documented: zero if it succeeds)", ur); }
  logev(th, m, E_UNL_RET, 0);
  mv_progress();
}

/* an occupier never yields and never blocks: it keeps its worker until every script thread has finished.
   With O <= W-1 of them the program still terminates, provided threads blocked on a mutex (lock, or
   timedlock with an unreachable deadline) leave their worker to the others */
static volatile int finished_threads; static int n_occupiers;
static void * occupier(void * a) { (void)a; while (finished_threads < P.T) mv_spin(US_GATE); return 0; }
static void * body(void * a) {
  int th = (int)(intptr_t)a;
  for (int s = 0; s < P.nsec[th]; s++) {
    section_t * sc = &P.sec[th][s];
    if (acquire(th, sc->m1, sc->k1)) {
      int inner = 0;
      if (sc->m2 >= 0) inner = acquire(th, sc->m2, sc->k2);
      long t1 = cnt[sc->m1], t2 = inner ? cnt[sc->m2] : 0;
      do_yields(sc->yin);
      cnt[sc->m1] = t1 + 1; model_cnt[sc->m1]++;
      if (inner) { cnt[sc->m2] = t2 + 1; model_cnt[sc->m2]++; release(th, sc->m2); }
      release(th, sc->m1);
    }
    do_yields(sc->yout);
    op_done();
  }
  __sync_fetch_and_add(&finished_threads, 1);
  return 0;
}

void scen_c04(mt_case * c) {
  mt_engine_cfg e; rd_t * r = &c->prog;
  mt_decode_engine(c, &e, 8);
  P.T = rd_range(r, 2, c->tier ? 12 : 8); P.M = rd_range(r, 1, 3);
  int maxsec = c->tier ? MAXSEC : 5;
  int used[A_NKINDS] = { 0 };
  mt_desc("C04 mutex T=%d M=%d\n", P.T, P.M);
  for (int t = 0; t < P.T; t++) {
    P.nsec[t] = rd_range(r, 1, maxsec);
    mt_desc(" thread %d:", t);
    for (int s = 0; s < P.nsec[t]; s++) {
      section_t * sc = &P.sec[t][s];
      unsigned kb = rd_u8(r);
      sc->m1 = (int)rd_below(r, (unsigned)P.M);
      sc->k1 = (kb & 1) ? (int)((kb >> 1) % A_NKINDS) : A_LOCK;     /* half of the acquisitions are plain lock */
      sc->m2 = -1;
      if (sc->m1 + 1 < P.M && rd_below(r, 3) == 0) { sc->m2 = rd_range(r, sc->m1 + 1, P.M - 1); sc->k2 = (int)rd_below(r, A_NKINDS); }
      sc->yin = (int)rd_below(r, 4); sc->yout = (int)rd_below(r, 3);
      used[sc->k1]++; if (sc->m2 >= 0) used[sc->k2]++;
      mt_desc(" [%s m%d", akind[sc->k1], sc->m1);
      if (sc->m2 >= 0) mt_desc(" + %s m%d", akind[sc->k2], sc->m2);
      mt_desc(" y%d]y%d", sc->yin, sc->yout);
    }
    mt_desc("\n");
  }
  /* only in programs whose waits are all blocking or bounded (lock, give-up trylock, past / near deadlines): a
     polling wait shares its worker fairly with local threads only, so two pollers may legitimately starve a
     holder that sits in an occupied worker's queue */
  n_occupiers = (e.W >= 2 && !used[A_TRY_RETRY] && !used[A_TIMED_FAR] && rd_below(r, 2) == 0) ? rd_range(r, 1, e.W - 1 > 3 ? 3 : e.W - 1) : 0;
  int occ_pos[4] = { 0, 0, 0, 0 };
  for (int i = 0; i < n_occupiers; i++) occ_pos[i] = (int)rd_below(r, (unsigned)P.T + 1);
  if (n_occupiers) mt_desc(" %d occupier thread(s), created after %d/%d/%d script threads: each keeps a worker busy, without yielding, until all script threads have finished\n", n_occupiers, occ_pos[0], occ_pos[1], occ_pos[2]);
  { long tot = 0; for (int t = 0; t < P.T; t++) tot += P.nsec[t]; lock_iter_limit = 16 * tot + 64; }
  mt_hash(c->prog.p, c->prog.pos);
  myth_verif_clock_fn = vclock;
  mt_allow_prelude = 1;
  mt_lib_start(c, &e, 0);
  mv_set_point_observer(observer); mv_set_spin_observer(spin_obs);
  for (int m = 0; m < P.M; m++) { MT_DIRTY(mtx[m]); Z0(myth_mutex_init(&mtx[m], 0)); }
  myth_thread_t th[16], oc[4];
  /* child first: an occupier takes over the creating worker; the creator and whatever else sits in that worker's
     run queue (threads that yielded there, possibly holding a mutex) can only go on by being stolen */
  for (int t = 0; t <= P.T; t++) {
    for (int i = 0; i < n_occupiers; i++) if (occ_pos[i] == t) Z0(myth_create_ex(&oc[i], 0, occupier, 0));
    if (t < P.T) Z0(mt_create(&th[t], body, (void *)(intptr_t)t));
  }
  for (int t = 0; t < P.T; t++) { Z0(myth_join(th[t], 0)); mv_progress(); }
  for (int i = 0; i < n_occupiers; i++) { Z0(myth_join(oc[i], 0)); mv_progress(); }
  mt_lib_finish();

  for (int m = 0; m < P.M; m++) {
    if (wit[m].in_cs) mt_fail("mutex %d occupancy %d at the end", m, wit[m].in_cs);
    if (cnt[m] != model_cnt[m]) mt_fail("mutex %d: protected counter %ld != completed sections %ld (lost update => mutual exclusion broken)", m, cnt[m], model_cnt[m]);
    if (mtx[m].state != 0) mt_fail("mutex %d: state word %ld at quiescence (expected 0)", m, (long)mtx[m].state);
  }
  /* interval model for failed try/timed acquisitions: hold intervals per (thread, mutex) are
     [index of the ACQ_ENTER of a successful acquire call, index of the UNL_RET that follows] */
  int n = nlog < MAXLOG ? nlog : MAXLOG, fails = 0;
  typedef struct { int th, m, from, to; } hold_t;
  static hold_t holds[MAXLOG / 2]; int nh = 0;
  {
    static int ent[16][4], cur[16][4];
    for (int t = 0; t < 16; t++) for (int m = 0; m < 4; m++) { ent[t][m] = -1; cur[t][m] = -1; }
    for (int i = 0; i < n; i++) {
      int t = lg[i].th, m = lg[i].m;
      if (lg[i].ev == E_ACQ_ENTER) ent[t][m] = i;
      else if (lg[i].ev == E_ACQ_OK) { cur[t][m] = nh; holds[nh].th = t; holds[nh].m = m; holds[nh].from = ent[t][m]; holds[nh].to = 1 << 30; nh++; }
      else if (lg[i].ev == E_UNL_RET) { if (cur[t][m] >= 0) holds[cur[t][m]].to = i; cur[t][m] = -1; }
    }
    /* an acquire call still in flight at the end of the log never succeeded: not a hold */
  }
  for (int i = 0; i < n; i++) if (lg[i].ev == E_ACQ_FAIL) {
    int a = -1, m = lg[i].m, t = lg[i].th;
    for (int j = i - 1; j >= 0; j--) if (lg[j].th == t && lg[j].m == m && lg[j].ev == E_ACQ_ENTER) { a = j; break; }
    int overlap = 0;
    for (int h = 0; h < nh && !overlap; h++)
      if (holds[h].m == m && holds[h].th != t && holds[h].from <= i && holds[h].to >= a) overlap = 1;
    fails++;
    if (!overlap) mt_fail("%s on mutex %d by thread %d failed although no other thread held or was acquiring it at any instant of the call (log %d..%d)",
                          lg[i].trykind == 1 ? "trylock" : "timedlock", m, t, a, i);
  }
  long races = (long)HIT(MVS_WAKE_ONE);
  mt_stat("blocked", blocked_cnt); mt_stat("migrated", migrated); mt_stat("unlock_waited_for_enqueue", races); mt_stat("failed_try", fails);
  for (int k = 0; k < A_NKINDS; k++) if (used[k]) mt_label(akind[k]);
  if (blocked_cnt) mt_label("blocked_on_sleep_queue");
  if (migrated) mt_label("resumed_on_other_worker");
  if (races) mt_label("unlock_raced_announced_locker");
  if (fails) mt_label("try_failed"); if (st_tl_polls_empty) mt_label("timedlock_poll_empty_queue"); mt_stat("timedlock_polls", st_tl_polls);
  if (e.W == 1) mt_label("W1");
  if (n_occupiers) mt_label("occupied_workers"); if (n_occupiers && n_occupiers == e.W - 1) mt_label("one_free_worker");
  mt_nontrivial((blocked_cnt > 0 && migrated > 0) || races > 0);
}
