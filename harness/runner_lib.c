/* runner_lib.c -- helpers that need the library's internal headers */
#include "common.h"
#include <pthread.h>
#include "myth/myth.h"
#include "myth_config.h"
#include "myth_worker.h"
#include "myth_wsqueue.h"

extern myth_running_env_t g_envs;
extern int g_envs_sz;

long mt_total_runnable(void) {
  long s = 0;
  for (int i = 0; i < g_envs_sz; i++) {
    int d = g_envs[i].runnable_q.top - g_envs[i].runnable_q.base;
    if (d > 0) s += d;
  }
  return s;
}
int mt_all_queues_empty(void) { return mt_total_runnable() == 0; }
int mt_queue_len(int rank) { if (rank < 0 || rank >= g_envs_sz) return 0; int d = g_envs[rank].runnable_q.top - g_envs[rank].runnable_q.base; return d > 0 ? d : 0; }

void mt_decode_engine(mt_case * c, mt_engine_cfg * e, int maxW) {
  static const int tails[8] = { 0, 0, 4, 16, 48, 96, 160, 255 };
  unsigned b0 = rd_u8(&c->cfg), b1 = rd_u8(&c->cfg), b2 = rd_u8(&c->cfg);
  if (maxW < 1) maxW = 1;
  e->W = 1 + (int)(b0 % (unsigned)maxW);
  e->tail_preempt = tails[b1 & 7];
  e->mode = (c->tier == 1 && b2 >= 224) ? MV_NOISE : MV_CONTROLLED;
  { static const int fills[8] = { 0, 0, 0, 0, 0xFF, 0x01, 0xAB, 0x80 }; mt_fill_byte = c->cfg.n > 4 ? fills[c->cfg.p[4] & 7] : 0; mt_hash_u((uint64_t)mt_fill_byte); }
  /* long windows: the pure status-polling loops of the library (no hook points inside) may poll in place for a
     while before anybody else runs -- the schedule in which every other worker is slow for that long */
  { static const int ids[8] = { MVS_JOIN_READY2_A, MVS_JOIN_READY2_B, MVS_TRYJOIN_READY2, MVS_DETACH_READY2, MVS_UNCOND_SIGNAL, MVS_MINIT, 0, 0 };
    unsigned k = b2 & 31;
    e->burst_id = 0; memcpy(e->burst_ids, ids, sizeof ids);
    e->burst_len = k < 24 ? 0 : k < 28 ? 100 : k < 30 ? 5000 : k < 31 ? 70000 : 1100000; }
  mt_hash_u((uint64_t)e->W | ((uint64_t)e->tail_preempt << 8) | ((uint64_t)e->mode << 20) | ((uint64_t)e->burst_len << 24));
}

static mv_config g_cfg;
static unsigned cr_b8, cr_b9;   /* creation flavour / pending-cancel configuration bytes of the case */
int mt_fill_byte, mt_allow_prelude;

/* push and pop are the owner's operations: whoever executes one on a worker's run queue must be running on that worker */
static void qop_check(void * q, int kind) {
  int me = mv_me();
  if (me < 0 || !mv_enabled()) return;
  for (int i = 0; i < g_envs_sz; i++) if ((void *)&g_envs[i].runnable_q == q) {
    if (i != me) mt_fail("owner-only run queue operation %s executed on the queue of worker %d by a thread running on worker %d", kind == MVQ_PUSH ? "push" : "pop", i, me);
    return;
  }
}
extern void (*volatile myth_verif_qop_fn)(void *, int) __attribute__((weak));
/* the per-worker free lists of thread records and stacks are unsynchronised: they may only be touched by a
   thread that is running on that worker */
void mt_freelist_owner_check(int rank, int is_free, int kind) {
  int me = mv_me();
  if (me < 0 || !mv_enabled() || rank < 0) return;
  if (rank != me) mt_fail("the unsynchronised per-worker free list of %s of worker %d was %s by a thread running on worker %d", kind == MVA_DESC ? "thread records" : "stacks", rank, is_free ? "pushed to" : "popped from", me);
}
#if defined(__has_feature)
#if __has_feature(address_sanitizer)
#define MT_ASAN 1
void __asan_unpoison_memory_region(void const volatile * addr, size_t size);
#endif
#endif
static size_t own_def_stack;
static void own_alloc(int kind, void * ptr, size_t size, int rank) {
  mt_freelist_owner_check(rank, 0, kind);
#ifdef MT_ASAN
  /* a finished thread leaves its stack by a jump, so ASan's shadow of a recycled stack still carries the scope
     poison of the old frames */
  if (kind == MVA_STACK) { size_t sz = size ? size : own_def_stack; if (sz) { char * hi = (char *)ptr + 16; __asan_unpoison_memory_region(hi - sz, sz); } }
#else
  (void)ptr; (void)size;
#endif
}
static void own_free(int kind, void * ptr, size_t size, int rank) { (void)ptr; (void)size; mt_freelist_owner_check(rank, 1, kind); }
extern void (*volatile myth_verif_alloc_fn)(int, void *, size_t, int) __attribute__((weak));
extern void (*volatile myth_verif_free_fn)(int, void *, size_t, int) __attribute__((weak));

static void mt_prelude(mt_case * c);
void mt_lib_start(mt_case * c, mt_engine_cfg * e, size_t def_stack) {
  myth_globalattr_t a;
  mv_install();
  myth_globalattr_init(&a);
  myth_globalattr_set_n_workers(&a, (size_t)e->W);
  myth_globalattr_set_bind_workers(&a, 0);
  if (!def_stack && c->cfg.n > 3) {
    /* scenarios that do not depend on the default stack size get a generated one: mostly the library default,
       otherwise sizes that are not page multiples, among them sizes that are 8 mod 16 */
    static const size_t ds[16] = { 0, 0, 0, 0, 0, 0, 0, 0, 0, 131080, 65544, 200008, 98328, 100000, 70000, 262144 };
    def_stack = ds[c->cfg.p[3] & 15];
    if (def_stack) { mt_desc("default stack size %zu\n", def_stack); mt_hash_u(def_stack); }
  }
  if (def_stack) myth_globalattr_set_stacksize(&a, def_stack);
  own_def_stack = def_stack ? def_stack : 128 * 1024;
  if (mt_fill_byte) mt_desc("synchronisation objects are initialised on memory filled with 0x%02x\n", mt_fill_byte);
  myth_init_ex(&a);
  memset(&g_cfg, 0, sizeof g_cfg);
  g_cfg.mode = e->mode;
  g_cfg.nparts = e->W;
  g_cfg.sched = c->sched; g_cfg.sched_len = c->sched_len;
  g_cfg.seed = c->seed;
  g_cfg.tail_preempt = e->tail_preempt;
  g_cfg.step_budget = c->tier ? 20000000 : 5000000;
  g_cfg.noise_level = 40;
  g_cfg.burst_id = e->burst_id; g_cfg.burst_len = e->burst_len; memcpy(g_cfg.burst_ids, e->burst_ids, sizeof g_cfg.burst_ids);
  if (&myth_verif_qop_fn && e->mode == MV_CONTROLLED) myth_verif_qop_fn = qop_check;
  if (&myth_verif_alloc_fn && !myth_verif_alloc_fn) { myth_verif_alloc_fn = own_alloc; myth_verif_free_fn = own_free; }   /* the ledger, where installed, runs the same check */
  if (e->burst_len) mt_desc("engine: status-polling loops poll %ld times in place before the token moves on\n", e->burst_len);
  mv_set_quiescent_fn(mt_all_queues_empty);
  mt_desc("engine: W=%d mode=%s tail_preempt=%d/256 sched_bytes=%zu seed=%u\n", e->W,
          e->mode == MV_NOISE ? "noise" : "controlled", e->tail_preempt, c->sched_len, c->seed);
  cr_b8 = c->cfg.n > 8 ? c->cfg.p[8] : 0; cr_b9 = c->cfg.n > 9 ? c->cfg.p[9] : 0;
  if (c->gen < 1) cr_b8 = cr_b9 = 0;
  if (((cr_b8 >> 5) & 7) >= 4) mt_desc("created threads carry %d bytes of custom data (work-stealing hint) in their attribute\n", (int[]){ 12, 28, 256, 8 }[((cr_b8 >> 5) & 7) - 4]);
  if ((cr_b8 & 1) || (cr_b9 & 7) >= 3) { mt_desc("thread creation: %s%s\n", (cr_b8 & 1) ? "flavours rotate (NULL attribute, attribute object, parent-first, parent-first + 70000-byte stack, 70000-byte stack)" : "NULL attribute", (const char *[]){ "", "", "", "; created threads run with cancellation disabled and a request pending", "; every other created thread runs with cancellation disabled", "; created threads run with cancellation disabled", "; every other created thread has a deferred cancellation request pending", "; every created thread has a deferred cancellation request pending" }[cr_b9 & 7]); mt_hash_u(((uint64_t)cr_b8 << 8) | cr_b9); }
  if (c->gen >= 1 && c->cfg.n > 10 && (c->cfg.p[10] & 7) >= 5 && e->mode == MV_CONTROLLED) mt_desc("run-queue windows preset %u slots from the %s of the storage\n", (c->cfg.p[10] >> 3) % 24, (c->cfg.p[10] & 7) == 5 ? "upper end" : (c->cfg.p[10] & 7) == 6 ? "lower end" : "upper / lower end (alternating workers)");
  int prelude = mt_allow_prelude && c->gen >= 1 && c->cfg.n >= 8 && (c->cfg.p[5] & 8) && (c->cfg.p[5] & 7);
  if (prelude) mt_desc("prelude: %d steps of unrelated library use before the program (kinds %02x, args %02x: detached / detach / join threads, custom stacks, keys)\n", c->cfg.p[5] & 7, c->cfg.p[6], c->cfg.p[7]);
  mt_flush_early();
  mv_enable(&g_cfg);
  /* run-queue windows start where a long history of pushes and steals (or puts) would have left them: a few slots
     from the upper or the lower end of the 131072-slot storage, so that the re-centring paths of push / put run
     inside real programs (all queues are empty and every other worker is parked at this point) */
  if (c->gen >= 1 && c->cfg.n > 10 && (c->cfg.p[10] & 7) >= 5 && e->mode == MV_CONTROLLED) {
    unsigned b10 = c->cfg.p[10], d = (b10 >> 3) % 24; int where = (int)(b10 & 7);
    for (int i = 0; i < g_envs_sz; i++) {
      myth_thread_queue_t q = &g_envs[i].runnable_q;
      if (q->top != q->base) continue;
      int up = where == 5 || (where == 7 && (i & 1));
      int pos = up ? q->size - (int)d : (int)d;
      if (pos < 0) pos = 0; if (pos > q->size) pos = q->size;
      q->top = q->base = pos;
    }
    mt_label(where == 5 ? "queue_window_at_upper_end" : where == 6 ? "queue_window_at_lower_end" : "queue_windows_at_both_ends");
    mt_hash_u(0x51000000u | b10);
  }
  if (prelude) mt_prelude(c);
}


/* ---------------- prelude: history left behind by unrelated use of the library ----------------
   Thread records, stacks and their embedded thread-specific-data nodes are recycled through per-worker free
   lists.  Before the scenario's own program starts, a generated sequence of ordinary library use runs to
   completion on the main thread, so that the program is served recycled objects with a past: records of
   detached threads, custom stacks of sizes that are not page multiples, threads that stored values under
   keys (with destructors) and left by myth_exit. */
static volatile int pre_done;
static void pre_dtor(void * v) { (void)v; }
static myth_key_t pre_keys[3]; static int pre_nkeys;
static void * pre_body(void * a) {
  long v = (long)(intptr_t)a;
  for (int i = 0; i < (int)(v & 3); i++) { myth_yield(); mv_progress(); }
  if (v & 4) for (int k = 0; k < pre_nkeys; k++) myth_setspecific(pre_keys[k], (void *)(intptr_t)(0x5000 + v + k));
  __sync_fetch_and_add(&pre_done, 1);
  mv_progress();
  if (v & 8) myth_exit((void *)(intptr_t)v);
  return (void *)(intptr_t)v;
}
static void mt_prelude(mt_case * c) {
  unsigned b5 = c->cfg.p[5], b6 = c->cfg.p[6], b7 = c->cfg.p[7];
  int n = (b5 & 8) ? (int)(b5 & 7) : 0;
  if (!n) return;
  static const size_t stk[4] = { 0, 20000, 33000, 16500 };
  char what[256]; int wl = 0; what[0] = 0;
  if (b7 & 64) { pre_nkeys = 1 + (int)(b7 & 1); for (int k = 0; k < pre_nkeys; k++) if (myth_key_create(&pre_keys[k], k == 0 ? pre_dtor : 0) != 0) mt_fail("prelude: myth_key_create failed"); }
  for (int i = 0; i < n; i++) {
    unsigned kind = (b6 >> (2 * (i & 3))) & 3, arg = ((b7 >> i) & 15) | ((kind == 3 || pre_nkeys) ? 4u : 0u);
    myth_thread_attr_t at; myth_thread_t t; void * rv = 0; int before = pre_done;
    myth_thread_attr_init(&at);
    if (stk[(b7 >> (i + 1)) & 3]) myth_thread_attr_setstacksize(&at, stk[(b7 >> (i + 1)) & 3]);
    switch (kind) {
    case 0:   /* created detached */
      myth_thread_attr_setdetachstate(&at, 1);
      if (myth_create_ex(&t, &at, pre_body, (void *)(intptr_t)arg) != 0) mt_fail("prelude: create failed");
      while (pre_done == before) { mv_spin(1002); myth_yield(); }
      wl += snprintf(what + wl, sizeof what - wl, " detached-attr"); break;
    case 1:   /* detached while it runs or after it finished */
      if (myth_create_ex(&t, &at, pre_body, (void *)(intptr_t)arg) != 0) mt_fail("prelude: create failed");
      if (myth_detach(t) != 0) mt_fail("prelude: detach failed");
      while (pre_done == before) { mv_spin(1002); myth_yield(); }
      wl += snprintf(what + wl, sizeof what - wl, " detach"); break;
    default:  /* joined; leaves by return or by myth_exit, with or without values under keys */
      if (myth_create_ex(&t, kind == 2 ? &at : 0, pre_body, (void *)(intptr_t)arg) != 0) mt_fail("prelude: create failed");
      if (myth_join(t, &rv) != 0 || rv != (void *)(intptr_t)arg) mt_fail("prelude: join delivered %p", rv);
      wl += snprintf(what + wl, sizeof what - wl, kind == 2 ? " attr+join" : " join"); break;
    }
    mv_progress();
  }
  /* let the detached threads finish their final switch before the program starts */
  for (int i = 0; i < 4; i++) { myth_yield(); mv_progress(); }
  if (pre_nkeys && (b7 & 128)) for (int k = 0; k < pre_nkeys; k++) myth_key_delete(pre_keys[k]);
  mt_label("prelude");
  mt_hash_u(((uint64_t)b5 << 16) | ((uint64_t)b6 << 8) | b7);
}

/* ---------------- creation flavours ---------------- */
void mt_cd_attach(myth_thread_attr_t * at, size_t size);
void mt_cd_verify(size_t size, const char * when);
typedef struct { myth_func_t fn; void * arg; int cancel; size_t cd; } cr_t;
static unsigned char cd_pattern[256]; static long cr_cd;
static void cd_check(size_t want, const char * when) {
  size_t sz = myth_wsapi_get_hint_size(0); unsigned char * p = myth_wsapi_get_hint_ptr(0);
  if (sz != want || !p) mt_fail("custom data of a thread created with %zu bytes of it: size %zu, pointer %p (%s)", want, sz, (void *)p, when);
  for (size_t i = 0; i < want; i++) if (p[i] != cd_pattern[i]) mt_fail("custom data (work-stealing hint, %zu bytes, copied to the top of the thread's stack at creation) differs at byte %zu %s: got %02x expected %02x", want, i, when, p[i], cd_pattern[i]);
}
static cr_t cr_pool[8192]; static volatile int cr_n; static long cr_stat[6], cr_disabled;
static void * cr_tramp(void * p) {
  cr_t * c = p;
  /* cancellation is deferred: a pending request must stay invisible to a thread that never calls myth_testcancel */
  if (c->cancel & 2) { int old = -1; if (myth_setcancelstate(PTHREAD_CANCEL_DISABLE, &old) != 0 || old != PTHREAD_CANCEL_ENABLE) mt_fail("myth_setcancelstate(DISABLE) in a new thread: returned an error or the old state was not ENABLE (%d)", old); }
  if (c->cancel & 1) myth_cancel(myth_self());
  if (c->cd) cd_check(c->cd, "when the thread starts");
  void * rv = c->fn(c->arg);
  if (c->cd) cd_check(c->cd, "when the thread function returns (the thread's own frames, or another stack, overlap it)");
  return rv;
}
void mt_cd_attach(myth_thread_attr_t * at, size_t size) {
  if (!cd_pattern[1]) for (int i = 0; i < 256; i++) cd_pattern[i] = (unsigned char)(i * 7 + 3);
  if (size > 256) size = 256;
  at->custom_data = size ? cd_pattern : 0; at->custom_data_size = size; if (size) cr_cd++;
}
void mt_cd_verify(size_t size, const char * when) { if (size) cd_check(size > 256 ? 256 : size, when); }
int mt_create(myth_thread_t * id, myth_func_t fn, void * arg) {
  int k = __sync_fetch_and_add(&cr_n, 1);
  int flavour = (cr_b8 & 1) ? (int)(((cr_b8 >> 1) + (unsigned)k) % 5) : 0;
  /* b9 & 7: 7 every thread has a request pending, 6 every other one; 5 every thread runs with cancellation disabled
     (never restored: the state is the thread's own business), 4 every other one; 3 both at once */
  int cancel = (((cr_b9 & 7) == 7) || ((cr_b9 & 7) == 6 && (k & 1)) || (cr_b9 & 7) == 3 ? 1 : 0) | (((cr_b9 & 7) == 5) || ((cr_b9 & 7) == 4 && (k & 1)) || (cr_b9 & 7) == 3 ? 2 : 0);
  myth_thread_attr_t at; myth_thread_attr_t * ap = 0;
  if (flavour) {
    myth_thread_attr_init(&at); ap = &at;
    if (flavour == 2 || flavour == 3) at.child_first = 0;
    if (flavour >= 3) myth_thread_attr_setstacksize(&at, 70000);
  }
  size_t cd = ((cr_b8 >> 5) & 7) >= 4 ? (size_t[]){ 12, 28, 256, 8 }[((cr_b8 >> 5) & 7) - 4] : 0;
  if (cd && k < 8192) {
    if (!ap) { myth_thread_attr_init(&at); ap = &at; }
    if (!cd_pattern[1]) for (int i = 0; i < 256; i++) cd_pattern[i] = (unsigned char)(i * 7 + 3);
    at.custom_data = cd_pattern; at.custom_data_size = cd; cr_cd++;
  } else cd = 0;
  cr_stat[flavour]++; if (cancel & 1) cr_stat[5]++; if (cancel & 2) cr_disabled++;
  if ((cancel || cd) && k < 8192) { cr_pool[k].fn = fn; cr_pool[k].arg = arg; cr_pool[k].cancel = cancel; cr_pool[k].cd = cd; return myth_create_ex(id, ap, cr_tramp, &cr_pool[k]); }
  return myth_create_ex(id, ap, fn, arg);
}

void mt_lib_finish(void) {
  if (cr_stat[1] + cr_stat[2] + cr_stat[3] + cr_stat[4]) mt_label("creation_flavours"); if (cr_stat[2] + cr_stat[3]) mt_label("parent_first_creation"); if (cr_stat[5]) mt_label("pending_cancel_request"); if (cr_disabled) mt_label("cancel_disabled_threads"); if (cr_cd) mt_label("custom_data_attribute");
  mv_finished();
  mv_disable();
}
