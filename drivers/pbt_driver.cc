// pbt_driver.cc -- generic rapidcheck driver.
//
// A case is (cfg bytes, prog bytes, schedule bytes, seed); every random choice is made by
// rapidcheck generators, so the whole triple shrinks as one value and a run is a pure function
// of RC_PARAMS.  The bytes are decoded into a structured program by the property's scenario
// inside the runner (structure-aware decoding, same decoder as the libFuzzer targets), executed
// against the real library in a forked child, and judged there by the property's oracle.
//
//   pbt_driver --prop N --runner PATH --cases M --seed S [--tier 0|1] [--prog-max B]
//              [--sched-max B] [--cfg-len B] --out FRAG.json --replay-dir DIR [--size MAXSIZE]
//
#include <rapidcheck.h>
#include <cstdio>
#include <cstdlib>
#include <cstring>
#include <cstdint>
#include <string>
#include <vector>
#include <map>
#include <set>
#include <sstream>
#include <unistd.h>
#include <signal.h>
#include <sys/wait.h>
#include <time.h>

using Bytes = std::vector<uint8_t>;

enum { V_OK = 0, V_ORACLE = 1, V_DEADLOCK = 2, V_STUCK = 3, V_INCONCLUSIVE = 4, V_CRASH = 5, V_REJECT = 6 };

struct Case { Bytes cfg, prog, sched; uint32_t seed; };

struct Report {
  int verdict = -1; std::string msg, hash, text, stats, known, raw;
  bool nontrivial = false; std::vector<std::string> labels;
};

static int g_prop, g_tier;
static int g_in = -1, g_out = -1; static pid_t g_pid;
static std::string g_runner;

static void start_runner() {
  int a[2], b[2];
  if (pipe(a) || pipe(b)) { perror("pipe"); exit(2); }
  g_pid = fork();
  if (g_pid == 0) {
    dup2(a[0], 0); dup2(b[1], 1);
    close(a[0]); close(a[1]); close(b[0]); close(b[1]);
    execl(g_runner.c_str(), g_runner.c_str(), "--server", (char *)0);
    perror("exec runner"); _exit(127);
  }
  close(a[0]); close(b[1]);
  g_in = a[1]; g_out = b[0];
}

static bool wr(int fd, const void * p, size_t n) { const char * c = (const char *)p; while (n) { ssize_t k = write(fd, c, n); if (k <= 0) return false; c += k; n -= (size_t)k; } return true; }
static bool rdn(int fd, void * p, size_t n) { char * c = (char *)p; while (n) { ssize_t k = read(fd, c, n); if (k <= 0) return false; c += k; n -= (size_t)k; } return true; }

static Bytes blob_of(const Case & c, bool text) {
  Bytes b; b.insert(b.end(), { 'M', 'V', 'C', '1', (uint8_t)g_prop, (uint8_t)((text ? 1 : 0) | (g_tier << 1)), 1 /* format generation */, 0 });
  auto put32 = [&](uint32_t v) { for (int i = 0; i < 4; i++) b.push_back((uint8_t)(v >> (8 * i))); };
  put32(c.seed); put32((uint32_t)c.cfg.size()); put32((uint32_t)c.prog.size()); put32((uint32_t)c.sched.size());
  b.insert(b.end(), c.cfg.begin(), c.cfg.end()); b.insert(b.end(), c.prog.begin(), c.prog.end()); b.insert(b.end(), c.sched.begin(), c.sched.end());
  return b;
}

static Report run_case(const Case & c, bool text) {
  Bytes b = blob_of(c, text);
  uint32_t len = (uint32_t)b.size();
  Report r;
  if (!wr(g_in, &len, 4) || !wr(g_in, b.data(), b.size())) { fprintf(stderr, "driver: runner died (write)\n"); exit(2); }
  uint32_t rl;
  if (!rdn(g_out, &rl, 4)) { fprintf(stderr, "driver: runner died (read)\n"); exit(2); }
  r.raw.resize(rl);
  if (rl && !rdn(g_out, &r.raw[0], rl)) { fprintf(stderr, "driver: runner died (read2)\n"); exit(2); }
  std::istringstream is(r.raw); std::string line;
  while (std::getline(is, line)) {
    if (line.size() < 2) continue;
    std::string rest = line.substr(2);
    switch (line[0]) {
      case 'V': { if (r.verdict >= 0) break; r.verdict = atoi(rest.c_str()); size_t sp = rest.find(' '); r.msg = sp == std::string::npos ? "" : rest.substr(sp + 1); break; }
      case 'H': r.hash = rest; break;
      case 'N': r.nontrivial = rest[0] == '1'; break;
      case 'C': { std::istringstream ls(rest); std::string l; while (ls >> l) r.labels.push_back(l); break; }
      case 'X': r.stats = rest; break;
      case 'K': r.known = rest; break;
      case 'T': r.text += rest + "\n"; break;
      case 'E': if (r.text.size() < 20000) r.text += "stderr: " + rest + "\n"; break;
      default: break;
    }
  }
  return r;
}

static std::string jesc(const std::string & s) {
  std::string o;
  for (char ch : s) {
    unsigned char c = (unsigned char)ch;
    if (c == '"') o += "\\\""; else if (c == '\\') o += "\\\\"; else if (c == '\n') o += "\\n";
    else if (c < 32 || c >= 127) { char t[8]; snprintf(t, sizeof t, "\\u%04x", c); o += t; } else o += ch;
  }
  return o;
}

// ---------------- generators ----------------
static int g_cfg_len = 8, g_prog_max = 96, g_sched_max = 256;

static rc::Gen<uint8_t> genByte() {
  // uniform bytes, with a bias to small values and boundaries so that decoders' `% n` choices
  // and size fields reach 0/1/max often
  return rc::gen::resize(100, rc::gen::weightedOneOf<uint8_t>({
    { 6, rc::gen::map(rc::gen::inRange(0, 256), [](int v) { return (uint8_t)v; }) },
    { 2, rc::gen::map(rc::gen::inRange(0, 8), [](int v) { return (uint8_t)v; }) },
    { 1, rc::gen::element<uint8_t>(0, 1, 2, 127, 128, 254, 255) } }));
}

static rc::Gen<Bytes> genBytes(int maxlen) {
  return rc::gen::exec([maxlen]() {
    int n = *rc::gen::resize(100, rc::gen::inRange(0, maxlen + 1));
    return *rc::gen::container<Bytes>((std::size_t)n, genByte());
  });
}

static rc::Gen<Bytes> genSched(int maxlen) {
  // three styles: dense random switching, sparse (few switches, long runs), none
  return rc::gen::exec([maxlen]() {
    int style = *rc::gen::resize(100, rc::gen::inRange(0, 8));
    if (style == 0) return Bytes();
    int n = *rc::gen::resize(100, rc::gen::inRange(0, maxlen + 1));
    if (style <= 4) return *rc::gen::container<Bytes>((std::size_t)n, rc::gen::map(rc::gen::resize(100, rc::gen::inRange(0, 256)), [](int v) { return (uint8_t)v; }));
    int sw = style == 5 ? 8 : (style == 6 ? 24 : 64);   // P(switch bit)/256
    return *rc::gen::container<Bytes>((std::size_t)n, rc::gen::map(rc::gen::resize(100, rc::gen::inRange(0, 256 * 256)), [sw](int v) {
      uint8_t b = (uint8_t)(v & 0xef); if ((v >> 8) < sw) b |= 16; return b; }));
  });
}

static rc::Gen<Case> genCase() {
  return rc::gen::exec([]() {
    Case c;
    c.cfg = *rc::gen::container<Bytes>((std::size_t)g_cfg_len, genByte());
    c.prog = *genBytes(g_prog_max);
    c.sched = *genSched(g_sched_max);
    c.seed = (uint32_t)*rc::gen::resize(100, rc::gen::inRange(0, 1 << 30));
    return c;
  });
}

namespace rc {
template <> struct Arbitrary<Case> { static Gen<Case> arbitrary() { return genCase(); } };
void showValue(const Case & c, std::ostream & os) {
  os << "case(cfg=" << c.cfg.size() << "B prog=" << c.prog.size() << "B sched=" << c.sched.size() << "B seed=" << c.seed << ")";
}
}

int main(int argc, char ** argv) {
  long cases = 1000; long seed = 1; std::string out = "frag.json", replay_dir = "."; int maxsize = 100;
  double budget_s = 0; long max_shrink = 400; std::string save_inconclusive; int saved_inconclusive = 0;
  for (int i = 1; i < argc; i++) {
    std::string a = argv[i];
    auto nxt = [&]() { if (i + 1 >= argc) { fprintf(stderr, "missing value for %s\n", a.c_str()); exit(2); } return std::string(argv[++i]); };
    if (a == "--prop") g_prop = atoi(nxt().c_str());
    else if (a == "--runner") g_runner = nxt();
    else if (a == "--cases") cases = atol(nxt().c_str());
    else if (a == "--seed") seed = atol(nxt().c_str());
    else if (a == "--tier") g_tier = atoi(nxt().c_str());
    else if (a == "--prog-max") g_prog_max = atoi(nxt().c_str());
    else if (a == "--sched-max") g_sched_max = atoi(nxt().c_str());
    else if (a == "--cfg-len") g_cfg_len = atoi(nxt().c_str());
    else if (a == "--out") out = nxt();
    else if (a == "--replay-dir") replay_dir = nxt();
    else if (a == "--size") maxsize = atoi(nxt().c_str());
    else if (a == "--budget") budget_s = atof(nxt().c_str());
    else if (a == "--max-shrink") max_shrink = atol(nxt().c_str());
    else if (a == "--save-inconclusive") save_inconclusive = nxt();
    else { fprintf(stderr, "unknown arg %s\n", a.c_str()); return 2; }
  }
  signal(SIGPIPE, SIG_IGN);
  start_runner();
  {
    char p[256];
    snprintf(p, sizeof p, "seed=%ld max_success=%ld max_size=%d max_discard_ratio=50 noshrink=0 verbose_progress=0", seed, cases, maxsize);
    setenv("RC_PARAMS", p, 1);
  }
  long evaluations = 0, inconclusive = 0, excluded_known = 0, rejected = 0, shrink_runs = 0;
  std::set<std::string> nontrivial_hashes, all_hashes;
  std::map<std::string, long> classes; std::map<std::string, long> known_classes;
  std::vector<std::string> samples;
  bool failed = false; Case fail_case; Report fail_rep;
  struct timespec t0; clock_gettime(CLOCK_MONOTONIC, &t0);
  bool budget_hit = false; struct timespec tfail = t0; long shrink_s = 40;

  bool ok = rc::check("property holds on every generated case", [&](const Case & c) {
    if (!failed && budget_s > 0) {
      struct timespec t; clock_gettime(CLOCK_MONOTONIC, &t);
      if ((t.tv_sec - t0.tv_sec) + (t.tv_nsec - t0.tv_nsec) * 1e-9 > budget_s) { budget_hit = true; return; }
    }
    if (failed) {   // shrink budget (runs and wall clock) used up: accept the current counterexample
      struct timespec t; clock_gettime(CLOCK_MONOTONIC, &t);
      if (shrink_runs >= max_shrink || (t.tv_sec - tfail.tv_sec) > shrink_s) return;
    }
    bool want_text = !failed && (samples.size() < 6);
    Report r = run_case(c, want_text);
    if (!failed) {
      evaluations++;
      all_hashes.insert(r.hash);
      for (auto & l : r.labels) classes[l]++;
      if (r.verdict == V_INCONCLUSIVE) {
        inconclusive++;
        if (!save_inconclusive.empty() && saved_inconclusive < 4) {
          char nm[600]; snprintf(nm, sizeof nm, "%s/inconclusive_C%02d_seed%ld_%d.case", save_inconclusive.c_str(), g_prop, seed, saved_inconclusive++);
          Bytes b = blob_of(c, false); FILE * f = fopen(nm, "wb"); if (f) { fwrite(b.data(), 1, b.size(), f); fclose(f); }
        }
      }
      if (r.verdict == V_REJECT) rejected++;
      if (!r.known.empty()) { excluded_known++; known_classes[r.known]++; }
      if (r.nontrivial && r.verdict == V_OK) {
        bool fresh = nontrivial_hashes.insert(r.hash).second;
        if (fresh && want_text && !r.text.empty()) samples.push_back(r.text + (r.stats.empty() ? "" : "stats:" + r.stats + "\n"));
      }
    } else shrink_runs++;
    bool bad = (r.verdict == V_ORACLE || r.verdict == V_DEADLOCK || r.verdict == V_STUCK || r.verdict == V_CRASH || r.verdict < 0);
    if (bad) { if (!failed) clock_gettime(CLOCK_MONOTONIC, &tfail); failed = true; fail_case = c; fail_rep = r; }
    RC_ASSERT(!bad);
  });
  (void)ok;
  struct timespec t1; clock_gettime(CLOCK_MONOTONIC, &t1);
  double wall = (t1.tv_sec - t0.tv_sec) + (t1.tv_nsec - t0.tv_nsec) * 1e-9;

  std::string replay_path;
  if (failed) {
    // the last failing run is the shrunk counterexample; fetch its textual form and save it
    Report r = run_case(fail_case, true);
    if (r.verdict == V_OK || r.verdict == V_REJECT || r.verdict == V_INCONCLUSIVE) r = fail_rep;   // not reproduced right now: keep what we saw
    char name[512];
    snprintf(name, sizeof name, "%s/C%02d_seed%ld_%s.case", replay_dir.c_str(), g_prop, seed, r.hash.empty() ? "nohash" : r.hash.c_str());
    replay_path = name;
    Bytes b = blob_of(fail_case, false);
    FILE * f = fopen(name, "wb"); if (f) { fwrite(b.data(), 1, b.size(), f); fclose(f); }
    std::string tn = std::string(name) + ".txt";
    f = fopen(tn.c_str(), "w"); if (f) { fprintf(f, "verdict %d: %s\n%s\nraw report:\n%s\n", r.verdict, r.msg.c_str(), r.text.c_str(), r.raw.c_str()); fclose(f); }
    fail_rep = r;
  }
  FILE * f = fopen(out.c_str(), "w");
  if (!f) { perror(out.c_str()); return 2; }
  fprintf(f, "{\"prop\":%d,\"seed\":%ld,\"tier\":%d,\"evaluations\":%ld,\"distinct_cases\":%zu,\"inconclusive\":%ld,\"rejected\":%ld,\"excluded_known\":%ld,\"shrink_runs\":%ld,\"wall_s\":%.3f,\"budget_hit\":%s,\n",
          g_prop, seed, g_tier, evaluations, all_hashes.size(), inconclusive, rejected, excluded_known, shrink_runs, wall, budget_hit ? "true" : "false");
  fprintf(f, "\"nontrivial_hashes\":[");
  { bool first = true; for (auto & h : nontrivial_hashes) { fprintf(f, "%s\"%s\"", first ? "" : ",", h.c_str()); first = false; } }
  fprintf(f, "],\n\"classes\":{");
  { bool first = true; for (auto & kv : classes) { fprintf(f, "%s\"%s\":%ld", first ? "" : ",", jesc(kv.first).c_str(), kv.second); first = false; } }
  fprintf(f, "},\n\"known_classes\":{");
  { bool first = true; for (auto & kv : known_classes) { fprintf(f, "%s\"%s\":%ld", first ? "" : ",", jesc(kv.first).c_str(), kv.second); first = false; } }
  fprintf(f, "},\n\"samples\":[");
  { bool first = true; for (auto & s : samples) { fprintf(f, "%s\"%s\"", first ? "" : ",", jesc(s).c_str()); first = false; } }
  fprintf(f, "],\n\"failed\":%s", failed ? "true" : "false");
  if (failed) fprintf(f, ",\"fail_verdict\":%d,\"fail_msg\":\"%s\",\"fail_known\":\"%s\",\"replay\":\"%s\",\"fail_text\":\"%s\"",
                      fail_rep.verdict, jesc(fail_rep.msg).c_str(), jesc(fail_rep.known).c_str(), jesc(replay_path).c_str(), jesc(fail_rep.text).c_str());
  fprintf(f, "}\n");
  fclose(f);
  close(g_in); int st; waitpid(g_pid, &st, 0);
  return failed ? 1 : 0;
}
