/* libFuzzer target for C15: MYTH_CPU_LIST parser (src/myth_bind_worker.c compiled from the tree).
 *
 * Bytes (NUL-free, as an environment value) -> setenv -> myth_get_available_cpus().
 * Oracle: differential against an independent recursive-descent parser of the documented grammar
 *   list ::= range (',' range)* ; range ::= num | num '-' num | num '-' num ':' num   (a-b = a..b-1, step c)
 * well formed and non-empty  => exactly that CPU list intersected with the affinity mask;
 * ill formed / empty result  => as if unset (CPUs 0..n-1 intersected with the mask);
 * no crash, no hang, n_available_cpus within bounds.  Numbers with more than 9 digits are not judged
 * (int overflow in the parser is unspecified) but must still not crash.
 */
#define _GNU_SOURCE
#include <stdint.h>
#include <stdio.h>
#include <stdlib.h>
#include <string.h>
#include <sched.h>
#include <unistd.h>
#include "myth_bind_worker.c"

static long n_exec, n_wellformed, n_multi, n_illformed, n_notjudged; static uint64_t seen[1 << 16]; static long n_distinct_nt;
static char samples[6][200]; static int n_samples;
static const char * statfile;

static void dump(void) {
  if (!statfile) return;
  FILE * f = fopen(statfile, "w"); if (!f) return;
  fprintf(f, "{\"evaluations\":%ld,\"wellformed\":%ld,\"multi_range\":%ld,\"illformed\":%ld,\"not_judged\":%ld,\"distinct_nontrivial\":%ld,\"samples\":[", n_exec, n_wellformed, n_multi, n_illformed, n_notjudged, n_distinct_nt);
  for (int i = 0; i < n_samples; i++) { fprintf(f, "%s\"", i ? "," : ""); for (char * p = samples[i]; *p; p++) { if (*p == '"' || *p == '\\') fputc('\\', f); if ((unsigned char)*p < 32 || (unsigned char)*p > 126) fprintf(f, "\\u%04x", (unsigned char)*p); else fputc(*p, f); } fprintf(f, "\""); }
  fprintf(f, "]}\n"); fclose(f);
}

/* ---- reference parser ---- */
static int ref_list[N_MAX_CPUS]; static int ref_n; static int ref_overflow;
static const char * rp;
static int ref_num(long * v) {
  int nd = 0; long x = 0;
  while (*rp >= '0' && *rp <= '9') { if (nd < 12) x = x * 10 + (*rp - '0'); nd++; rp++; }
  if (!nd) return 0;
  if (nd > 9) ref_overflow = 1;
  *v = x; return 1;
}
static int ref_range(void) {
  long a, b, c = 1;
  if (!ref_num(&a)) return 0;
  b = a + 1;
  if (*rp == '-') { rp++; if (!ref_num(&b)) return 0; if (*rp == ':') { rp++; if (!ref_num(&c)) return 0; } }
  if (ref_overflow) return 1;
  for (long x = a; x < b; x += c) { if (ref_n >= N_MAX_CPUS) return 0; ref_list[ref_n++] = (int)x; if (c == 0 && ref_n >= N_MAX_CPUS) return 0; }
  return 1;
}
static int ref_parse(const char * s) {
  rp = s; ref_n = 0; ref_overflow = 0;
  if (!ref_range()) return 0;
  while (*rp == ',') { rp++; if (!ref_range()) return 0; }
  return *rp == 0;
}

int LLVMFuzzerInitialize(int * argc, char *** argv) { (void)argc; (void)argv; statfile = getenv("FUZZ_STAT_FILE"); atexit(dump); return 0; }

int LLVMFuzzerTestOneInput(const uint8_t * data, size_t size) {
  static char buf[4096];
  if (size >= sizeof buf) size = sizeof buf - 1;
  size_t n = 0;
  for (size_t i = 0; i < size; i++) if (data[i]) buf[n++] = (char)data[i];     /* environment values cannot hold NUL */
  buf[n] = 0;
  n_exec++;
  /* reset the parser's static state: nothing may leak between iterations */
  n_available_cpus = -1; memset(myth_cpu_list, 0xff, sizeof myth_cpu_list); memset(worker_cpu, 0xff, sizeof worker_cpu);
  setenv("MYTH_CPU_LIST", buf, 1);
  FILE * saved = stderr; static FILE * devnull; if (!devnull) devnull = fopen("/dev/null", "w"); stderr = devnull;
  myth_get_available_cpus();
  stderr = saved;
  /* expected */
  int ok = ref_parse(buf);
  if (ref_overflow) { n_notjudged++; return 0; }
  cpu_set_t cs; sched_getaffinity(getpid(), sizeof cs, &cs);
  int expect[N_MAX_CPUS], en = 0;
  if (ok && ref_n > 0) { for (int i = 0; i < ref_n; i++) if (ref_list[i] >= 0 && ref_list[i] < CPU_SETSIZE && CPU_ISSET(ref_list[i], &cs)) expect[en++] = ref_list[i]; }
  else { int nc = (int)sysconf(_SC_NPROCESSORS_ONLN); for (int i = 0; i < nc; i++) if (CPU_ISSET(i, &cs)) expect[en++] = i; }
  int bad = 0;
  if (n_available_cpus != en) bad = 1;
  for (int i = 0; !bad && i < en; i++) if (worker_cpu[i] != expect[i]) bad = 1;
  if (bad) {
    fprintf(stderr, "C15 ORACLE: MYTH_CPU_LIST=\"%s\": library says %d CPUs, reference (%s) says %d\n", buf, n_available_cpus, ok ? "well formed" : "ill formed => as if unset", en);
    dump(); __builtin_trap();
  }
  int multi = ok && strchr(buf, ',') && strchr(buf, '-');
  if (ok) n_wellformed++; else n_illformed++;
  if (multi) n_multi++;
  /* non-trivial: well-formed list with >= 2 ranges one of which is a-b, or ill-formed input containing digits */
  int nt = multi || (!ok && strpbrk(buf, "0123456789"));
  if (nt) {
    uint64_t h = 1469598103934665603ULL; for (size_t i = 0; i < n; i++) h = (h ^ (unsigned char)buf[i]) * 1099511628211ULL;
    uint64_t * slot = &seen[h & 0xffff];
    if (*slot != h) { if (*slot == 0) n_distinct_nt++; *slot = h; if (n_samples < 6 && n < 190) strcpy(samples[n_samples++], buf); }
  }
  return 0;
}
