"""checkcfg.py -- per-property stage tables for bin/check"""
LEVEL = 'exploration'
EXTRA_STAGES = {}

COMMON_ASSUME = [
    'interleavings are explored at hook-point granularity (MYTH_VERIF_POINT/SPIN sites), sampled, under sequential consistency',
    'hooks are observation/yield points only; a build with -DMYTH_VERIF computes the same values as one without',
    'hang verdicts: DEADLOCK (all workers idle + all run queues empty + program unfinished) and STUCK (every participant spun 64*W times without progress); step/wall budgets are inconclusive, never violations',
]

PROPS = {
  'C16': {
    'rule': 'cases = (determinate pthread program: 1..6 threads created with NULL / default / stack-size attribute objects, returning or calling pthread_exit, all running one generated list of up to 20 phases: lock-protected counters on three mutexes (PTHREAD_MUTEX_INITIALIZER first used by several threads at once, or pthread_mutex_init with a default attribute object), trylock loops, barrier phases with serial-thread count, condvar turnstile (one condvar + broadcast or per-thread condvars + signal) and gate (broadcast, or T-1 signals on a condvar of its own), spin-lock sections (spin_lock or a spin_trylock retry loop), once with three routines, four keys (three with destructors that ignore NULL), child threads created with no / default / stack-size / detached attributes and joined, awaited, or detached by their creator with pthread_detach, attribute getters, sched_yield, usleep / nanosleep (rem NULL or the request) / sleep(0), pthread_self/equal, destroy / key_delete of every object at the end; the return codes of the lock, unlock, wait, signal, init and destroy calls are part of the printed result; W in 1..8; schedule bytes for the controlled run); '
            'each case is run on system pthreads (reference) and in four redirected ways: LD_PRELOAD of libmyth-dl, link-time wrapped with pass-through, link-time wrapped under a controlled schedule, link-time wrapped free running; non-trivial = the program uses >= 3 API groups and W >= 2; distinct = hash of (program bytes, W)',
    'assumptions': ['programs are determinate by construction; stdout (which includes a flag word over the return codes of successful-by-construction calls) and exit status are compared', 'a wall-clock timeout of a free-running variant is inconclusive; DEADLOCK / STUCK verdicts of the controlled variant are violations', 'spin-lock holders never yield (user-level threads)'],
    'stages': [
      {'kind': 'replays', 'name': 'replay', 'variant': 'v0', 'pth_clients': True},
      {'kind': 'pbt', 'name': 'pthread-differential', 'variant': 'v0', 'prop': 16, 'cases': (220, 3000), 'prog_max': 80, 'sched_max': 384, 'pth_clients': True, 'timeout': 120},
    ],
  },
  'C18': {
    'rule': 'cases = (well-nested task program of up to 200 (quick) / 5000 (thorough) operations from the grammar task ::= (section|other)* end; section ::= (create(task)|section|other)* wait, generated busy-work per interval, simulation of a work-stealing run on W in 1..8 virtual workers with generated start/resume workers and a generated schedule per create (child first, child started in a later create/other window of the section, or child run after the parent entered its wait), generated contraction options (collapse_max, uncollapse_min, collapse_max_count, node_count_target/prune_threshold, chk_level), 1..50 file names); '
            'non-trivial = the dumped DAG has fewer materialised nodes than logical nodes (something was contracted) AND intervals of >= 2 workers; distinct = hash of (program bytes, W)',
    'assumptions': ['clocks are real rdtsc readings: work and critical path are compared within each run against the values the hooks saw, never across runs', 'edge totals of the uncontracted DAG are defined as create = create_cont = end = #create intervals, wait_cont = #wait intervals, other_cont = #other intervals', 'the simulator is serial: a child task runs to completion before its parent continues (any such execution is a legal schedule)'],
    'stages': [
      {'kind': 'replays', 'name': 'replay', 'variant': 'v0'},
      {'kind': 'pbt', 'name': 'dag-totals-v0', 'variant': 'v0', 'prop': 18, 'cases': (1200, 20000), 'prog_max': 700, 'sched_max': 0},
      {'kind': 'pbt', 'name': 'dag-totals-asan', 'variant': 'va', 'prop': 18, 'cases': (300, 6000), 'prog_max': 700, 'sched_max': 0},
      {'kind': 'fuzz', 'name': 'dag-fuzz', 'target': 'fuzz_dag', 'libs': ['libdr.a'], 'runs': (800, 60000), 'max_len': 600, 'procs': 8},
    ],
  },
  'C19': {
    'rule': 'cases = as C18, plus generated conversion-time contraction options; non-trivial = something was contracted at record time or by the shrinking conversion AND >= 2 workers; distinct = hash of (program bytes, W)',
    'assumptions': ['struct layouts are taken from dag_recorder_impl.h; the validation logic is independent of the dump / read code'],
    'stages': [
      {'kind': 'replays', 'name': 'replay', 'variant': 'v0'},
      {'kind': 'pbt', 'name': 'dag-files-v0', 'variant': 'v0', 'prop': 19, 'cases': (1000, 16000), 'prog_max': 700, 'sched_max': 0},
      {'kind': 'pbt', 'name': 'dag-files-asan', 'variant': 'va', 'prop': 19, 'cases': (250, 5000), 'prog_max': 700, 'sched_max': 0},
      {'kind': 'fuzz', 'name': 'dag-fuzz', 'target': 'fuzz_dag', 'libs': ['libdr.a'], 'runs': (800, 60000), 'max_len': 600, 'procs': 8},
    ],
  },
  'C15': {
    'rule': 'fuzz stage: libFuzzer over MYTH_CPU_LIST strings (bytes without NUL) differential against an independent parser of the documented range grammar; non-trivial = well-formed list with >= 2 ranges one of them a-b, or an ill-formed string containing digits; '
            'environment stage: generated maps over the six configuration variables (unset, empty, clean, zero, negative, junk, integer+junk, whitespace, control characters, list-grammar mutations), implicit or explicit init; non-trivial = at least one variable holds a malformed value; '
            'history stage: 1..20 (200 thorough) init/fini cycles (init_ex with 1..16 workers and 4 stack sizes, plain init, implicit init, two racing initialisers), finalisation after the main thread migrated; non-trivial = >= 2 cycles and (fini called from a worker other than 0 or a racing initialisation); distinct = hash of the decoded case',
    'assumptions': ['no controlled scheduler in this property: natural timing, only invariants that hold under any timing are asserted', 'well-formed but unusable requests are excluded by construction: default stack below 16 KiB or above 64 MiB, more than 64 workers, numbers beyond int', 'worker count for integer+junk / whitespace-prefixed strings is not judged', 'plain myth_init() after an earlier myth_init_ex keeps the earlier attributes: its worker count is not judged'],
    'stages': [
      {'kind': 'replays', 'name': 'replay', 'variant': 'v0'},
      {'kind': 'fuzz', 'name': 'cpulist-fuzz', 'target': 'fuzz_cpulist', 'runs': (150000, 3000000), 'max_len': 64},
      {'kind': 'pbt', 'name': 'environment', 'variant': 'v0', 'prop': 15, 'cases': (150, 4000), 'prog_max': 64, 'sched_max': 0, 'procs': 8, 'hang_recheck': True},
      {'kind': 'pbt', 'name': 'init-fini-histories', 'variant': 'v0', 'prop': 35, 'cases': (40, 1000), 'prog_max': 120, 'sched_max': 0, 'procs': 8, 'hang_recheck': True},
    ],
  },
  'C17': {
    'rule': 'C API stage: cases = (create_join_many / create_join_various, n from {0,1,2,3,odd,2^k-1,2^k,2^k+1,..300} or dense 0..40, one guarded byte arena holding args/results/ids/attrs/funcs as separate strided arrays (arg stride 0/1/8/24/40, larger-than-element strides, func stride 0 = shared slot) or as interleaved struct fields, each of results/ids/attrs NULL or not, per-item attributes with stack sizes and creation order; W in 1..8; schedule); non-trivial = n >= 2 AND (a leaf was stolen OR interleaved layout OR per-item attributes); '
            'mtbb stage: task_group with 0..40 run() calls (beyond the 8-entry inline list) of closures of 4 size classes, nested groups, group reuse; parallel_for (first,last) / (first,last,step) / (first,last,step,grain) / range-based over int and long with empty, single-element and reversed ranges; non-trivial = more than 8 run() calls, or an empty / single-element range, or a stolen task; distinct = hash of (program, schedule, seed)',
    'assumptions': COMMON_ASSUME + ['ids[] entries are required non-NULL but not distinct (a leaf record is recycled once joined)', 'the grain-size overload is exercised with Index=int only (it does not compile for long: literal 0 in the header)', 'task-creation bound 4n+16 for parallel_for over n indices turns non-termination into a decidable violation'],
    'stages': [
      {'kind': 'replays', 'name': 'replay', 'variant': 'v0'},
      {'kind': 'pbt', 'name': 'bulk-c-api-v0', 'variant': 'v0', 'prop': 17, 'cases': (700, 12000), 'prog_max': 48, 'sched_max': 384},
      {'kind': 'pbt', 'name': 'bulk-c-api-asan', 'variant': 'va', 'prop': 17, 'cases': (150, 4000), 'prog_max': 48, 'sched_max': 384},
      {'kind': 'pbt', 'name': 'mtbb-v0', 'variant': 'v0', 'prop': 27, 'cases': (700, 12000), 'prog_max': 48, 'sched_max': 384},
      {'kind': 'pbt', 'name': 'mtbb-v2', 'variant': 'v2', 'prop': 27, 'cases': (300, 8000), 'prog_max': 48, 'sched_max': 384},
    ],
  },
  'C10': {
    'rule': 'sequential stage: cases = (create n0 in {1,2,16,17,64,65,256,257,1000,1024} keys, delete by mode (none / all but last / all but a few high / random half / lower half) so that sparse trees with empty lower branches occur, optional exhaustion (1025th create), 1..4 threads with scripts of set/get on boundary-biased live keys, yields, key create/delete by threads (index reuse), out-of-range set/get; W in 1..8; schedule); non-trivial = a get was checked AND (a key >= 16 was used OR an index was reused after delete OR the thread migrated); '
            'concurrent stage: 2..4 threads held on distinct workers by a spin gate issue generated create/delete sequences; non-trivial = two allocator operations (create/delete) of different threads overlapped in time; distinct = hash of (program, schedule, seed)',
    'assumptions': COMMON_ASSUME + ['reads under a key index re-created since the thread stored are unspecified (as in POSIX) and not judged'],
    'stages': [
      {'kind': 'replays', 'name': 'replay', 'variant': 'v0'},
      {'kind': 'pbt', 'name': 'tls-model-v0', 'variant': 'v0', 'prop': 10, 'cases': (800, 12000), 'prog_max': 260, 'sched_max': 256},
      {'kind': 'pbt', 'name': 'key-alloc-concurrent-v0', 'variant': 'v0', 'prop': 30, 'cases': (1500, 30000), 'prog_max': 40, 'sched_max': 256},
      {'kind': 'pbt', 'name': 'tls-model-asan', 'variant': 'va', 'prop': 10, 'cases': (200, 5000), 'prog_max': 260, 'sched_max': 256},
    ],
  },
  'C11': {
    'rule': 'cases = (key universe as in C10 with destructor assignment none / all / alternate / generated over 8 distinct destructor functions; 1..4 threads set generated non-NULL values on boundary-biased key subsets and terminate by return / myth_exit / cancel+testcancel); '
            'non-trivial = at least one destructor call was expected AND a key >= 16 held a value; distinct = hash of (program, schedule, seed)',
    'assumptions': COMMON_ASSUME + ['destructor calls with a NULL argument are ignored (the statement does not forbid them and a pinned test relies on one)', 'values held under a key that was deleted / re-created before the thread exits are unspecified'],
    'stages': [
      {'kind': 'replays', 'name': 'replay', 'variant': 'v0'},
      {'kind': 'pbt', 'name': 'destructors-v0', 'variant': 'v0', 'prop': 11, 'cases': (1000, 15000), 'prog_max': 260, 'sched_max': 128},
      {'kind': 'pbt', 'name': 'destructors-asan', 'variant': 'va', 'prop': 11, 'cases': (300, 6000), 'prog_max': 260, 'sched_max': 128},
    ],
  },
  'C02': {
    'rule': 'unit stage: cases = (queue of capacity 16 compiled from the tree, prefill 0..8 pushes + 0..8 puts so both storage boundaries are reached, 1 owner (push/pop/put/drain) + 1..3 thieves (take/trypass/peek) with <=12/24 ops each, schedule bytes + tail, x86-TSO store buffering of the top/base stores on in half of the cases); '
            'non-trivial = two operations overlapped while the queue held <= 2 elements, or the storage was re-centred; '
            'library stage: C01-style spawn trees + yield storms with a generated custom steal function (wsapi take with declining callback, peek, pass); non-trivial = >= 1 successful steal and >= 1 declined candidate; distinct = hash of (program, schedule, seed)',
    'assumptions': COMMON_ASSUME + ['x86-TSO is emulated only for the queue index stores (owner top in pop, thief base in take); other architectures are out of reach'],
    'stages': [
      {'kind': 'replays', 'name': 'replay', 'variant': 'v0'},
      {'kind': 'pbt', 'name': 'queue-unit-v0', 'variant': 'v0', 'prop': 2, 'cases': (3000, 60000), 'prog_max': 96, 'sched_max': 384},
      {'kind': 'pbt', 'name': 'queue-unit-v2', 'variant': 'v2', 'prop': 2, 'cases': (1500, 30000), 'prog_max': 96, 'sched_max': 384},
      {'kind': 'pbt', 'name': 'library-steal-v0', 'variant': 'v0', 'prop': 22, 'cases': (400, 15000), 'prog_max': 200, 'sched_max': 512},
      {'kind': 'pbt', 'name': 'library-steal-v2', 'variant': 'v2', 'prop': 22, 'cases': (150, 8000), 'prog_max': 200, 'sched_max': 512},
    ],
  },
  'C20': {
    'rule': 'cases = (virtual clock: start value with nanosecond field at both ends, cycle of 1..8 per-reading increments from {0,1ns,..,2s}; 1..4 threads with scripts of nanosleep/usleep/sleep (incl. zero, carries, malformed fields; the rem argument of nanosleep NULL, separate or the request object itself), timedlock against holder sections and on uncontended mutexes, timedjoin against targets of generated length, deadlines past / in k ticks -1/0/+1 ns; one quarter of the cases on one worker with an always-runnable sibling; W in 1..8; schedule); '
            'non-trivial = a sleep really polled the clock (>= 3 readings) or a timed lock / timed join timed out; distinct = hash of (program, schedule, seed)',
    'assumptions': COMMON_ASSUME + ['the clock is virtual (guarded hook in hr_gettime); real-clock behaviour is only exercised by the pinned tests', 'either timeout code (ETIMEDOUT / EBUSY) is accepted as "a timeout error"'],
    'stages': [
      {'kind': 'replays', 'name': 'replay', 'variant': 'v0'},
      {'kind': 'pbt', 'name': 'time-v0', 'variant': 'v0', 'prop': 20, 'cases': (1500, 20000), 'prog_max': 160, 'sched_max': 256},
      {'kind': 'pbt', 'name': 'time-v2', 'variant': 'v2', 'prop': 20, 'cases': (400, 10000), 'prog_max': 160, 'sched_max': 256},
    ],
  },
  'C03': {
    'rule': 'cases = (T in 1..8 probe threads running one generated phase list: yield x5 options, create+join child-first/parent-first with default/custom stacks, contended mutex, barrier, condvar turnstile, join counter, uncond mailbox; six generated 64-bit patterns in rbx,rbp,r12-r15 and a stack array of 64B..32KiB around every switching call; thread entry through an assembly stub recording rsp mod 16; W in 1..8 (16 thorough); schedule); '
            'non-trivial = at least one probed call really switched (another thread ran on the worker during the call, or the thread came back on another worker); distinct = hash of (phases, schedule, seed)',
    'assumptions': COMMON_ASSUME + ['x86-64 only; the red-zone skip is observable only indirectly (optimised builds)', 'library built with gcc -O0, gcc -O2 and clang -O2'],
    'stages': [
      {'kind': 'replays', 'name': 'replay', 'variant': 'v0'},
      {'kind': 'pbt', 'name': 'probes-gcc-O0', 'variant': 'v0', 'prop': 3, 'cases': (700, 10000), 'prog_max': 80, 'sched_max': 384},
      {'kind': 'pbt', 'name': 'probes-gcc-O2', 'variant': 'v2', 'prop': 3, 'cases': (500, 10000), 'prog_max': 80, 'sched_max': 384},
      {'kind': 'pbt', 'name': 'probes-clang-O2', 'variant': 'c2', 'prop': 3, 'cases': (400, 10000), 'prog_max': 80, 'sched_max': 384},
    ],
  },
  'C12': {
    'rule': 'cases = (history of 4..60 (quick) / 400 (thorough) manager operations over 1..12 slots: create (body quick/yielder/waiter/spawner; default or custom stack size from the allocator size classes and off-class sizes; parent-first; detach attribute), release, join now/late, tryjoin, timedjoin, detach before/after finish, yields, create+join cycles; every body keeps a canary buffer on its own stack; W in 1..8; schedule); '
            'non-trivial = a stack or record was released by a different worker than allocated it, or a late join happened after records had been recycled; distinct = hash of (history, schedule, seed)',
    'assumptions': COMMON_ASSUME + ['ledger fed by guarded alloc/free hooks placed at the four allocation/release functions of records and stacks'],
    'stages': [
      {'kind': 'replays', 'name': 'replay', 'variant': 'v0'},
      {'kind': 'pbt', 'name': 'ledger-v0', 'variant': 'v0', 'prop': 12, 'cases': (900, 12000), 'prog_max': 400, 'sched_max': 512},
      {'kind': 'pbt', 'name': 'ledger-v2', 'variant': 'v2', 'prop': 12, 'cases': (300, 6000), 'prog_max': 400, 'sched_max': 512},
      {'kind': 'pbt', 'name': 'ledger-asan', 'variant': 'va', 'prop': 12, 'cases': (150, 4000), 'prog_max': 400, 'sched_max': 512},
    ],
  },
  'C13': {
    'rule': 'cases = same history language as C12 with one third of the cases forced to one worker, tryjoin polling, timedjoin on a virtual clock (step 1ns..0.7s; past/near/far deadlines), detach by call and by attribute, create+join cycles; '
            'non-trivial = records were recycled AND (a tryjoin reported busy, a timedjoin timed out, a detach (call or attribute) happened, or the case ran on one worker where the bounded-memory equality fresh == max-in-use is asserted); distinct = hash of (history, schedule, seed)',
    'assumptions': COMMON_ASSUME + ['tryjoin EBUSY is judged exactly only with one worker (with more, the target may legitimately be in the middle of finishing)', 'detach state attribute value 1 (== PTHREAD_CREATE_DETACHED) means detached'],
    'stages': [
      {'kind': 'replays', 'name': 'replay', 'variant': 'v0'},
      {'kind': 'pbt', 'name': 'reap-v0', 'variant': 'v0', 'prop': 13, 'cases': (900, 12000), 'prog_max': 400, 'sched_max': 512},
      {'kind': 'pbt', 'name': 'reap-v2', 'variant': 'v2', 'prop': 13, 'cases': (300, 6000), 'prog_max': 400, 'sched_max': 512},
      {'kind': 'pbt', 'name': 'reap-asan', 'variant': 'va', 'prop': 13, 'cases': (150, 4000), 'prog_max': 400, 'sched_max': 512},
    ],
  },
  'C06': {
    'rule': 'cases = (N in 1..12 participants, and in one case of eight N at the boundaries of the powers of two from 15 to 4097 (1023..1027, 2047..2050, ...), R in 1..6 (1..3 for large N) consecutive rounds on one barrier, generated yields before each arrival, main thread participating or not, W in 1..8, schedule bytes + tail); '
            'non-trivial = the last arriver had to wait for a sleeper that had announced itself but not yet pushed itself on the sleep stack OR a participant entered round k+1 before all of round k had returned; distinct = hash of (program, schedule, seed)',
    'assumptions': COMMON_ASSUME + ['exactly N participants use the barrier (documented precondition)'],
    'stages': [
      {'kind': 'replays', 'name': 'replay', 'variant': 'v0'},
      {'kind': 'pbt', 'name': 'barrier-v0', 'variant': 'v0', 'prop': 6, 'cases': (800, 20000), 'prog_max': 96, 'sched_max': 320},
      {'kind': 'pbt', 'name': 'barrier-v2', 'variant': 'v2', 'prop': 6, 'cases': (250, 10000), 'prog_max': 96, 'sched_max': 384},
    ],
  },
  'C07': {
    'rule': 'cases = (N from {0,1,2,3,4,7,8,9,2^k-1,2^k,2^k+1,...,INT_MAX} or dense 0..40; for N>48 the public state word is preset to N-d decrements and the last d<=48 are executed; K in 0..6 waiters with generated delays, D decrementer threads, optional held-back phase with fewer than N decrements; W in 1..8; schedule); '
            'non-trivial = a waiter really announced itself and blocked AND (the final decrement had to wait for its enqueue OR a waiter resumed on another worker); distinct = hash of (program, schedule, seed)',
    'assumptions': COMMON_ASSUME + ['N <= INT_MAX because myth_join_counter_init takes an int', 'large N: state preset through the public struct field to a state reachable by real decrements'],
    'stages': [
      {'kind': 'replays', 'name': 'replay', 'variant': 'v0'},
      {'kind': 'pbt', 'name': 'joincounter-v0', 'variant': 'v0', 'prop': 7, 'cases': (1200, 20000), 'prog_max': 64, 'sched_max': 320},
      {'kind': 'pbt', 'name': 'joincounter-v2', 'variant': 'v2', 'prop': 7, 'cases': (400, 10000), 'prog_max': 64, 'sched_max': 384},
    ],
  },
  'C08': {
    'rule': 'cases = (single-slot mailbox between one producer and one consumer following the documented protocol: status word with FULL and SLEEPING bits changed by CAS, then uncond_wait / uncond_signal; 1..30 items, generated yields, who is created first, main thread as producer/consumer/neither, 0..3 bystander threads that only yield, length of the window in which an early signal polls alone (0, 100, 5000, 70000 or 1.1 million polls); W in 1..8; schedule); '
            'non-trivial = a wait happened AND (a signal was issued before the waiter had suspended (signal spun) OR the waiter resumed on another worker); distinct = hash of (program, schedule, seed)',
    'assumptions': COMMON_ASSUME + ['one waiter per uncondition variable at a time (documented)'],
    'stages': [
      {'kind': 'replays', 'name': 'replay', 'variant': 'v0'},
      {'kind': 'pbt', 'name': 'uncond-v0', 'variant': 'v0', 'prop': 8, 'cases': (1200, 20000), 'prog_max': 16, 'sched_max': 384},
      {'kind': 'pbt', 'name': 'uncond-v2', 'variant': 'v2', 'prop': 8, 'cases': (400, 10000), 'prog_max': 16, 'sched_max': 384},
    ],
  },
  'C09': {
    'rule': 'cases = (single-slot mailbox on a full/empty lock: P,C in 1..5, items, quotas, yields, optional inspector thread using plain felock_lock and releasing with unlock or mark_and_signal(current status), 0..4 readFF readers that leave the variable full and a closing write that reaches them one mark_and_signal at a time; W in 1..8; schedule); '
            'non-trivial = a participant blocked AND (a waiter resumed on another worker OR the token moved inside the enqueue..unlock window); distinct = hash of (program, schedule, seed)',
    'assumptions': COMMON_ASSUME,
    'stages': [
      {'kind': 'replays', 'name': 'replay', 'variant': 'v0'},
      {'kind': 'pbt', 'name': 'felock-v0', 'variant': 'v0', 'prop': 9, 'cases': (1000, 16000), 'prog_max': 64, 'sched_max': 320},
      {'kind': 'pbt', 'name': 'felock-v2', 'variant': 'v2', 'prop': 9, 'cases': (300, 8000), 'prog_max': 64, 'sched_max': 384},
    ],
  },
  'C14': {
    'rule': 'cases = (K in 1..16 callers on 1..3 once-controls, init routine kind per control in {plain, yields, locks a mutex, creates+joins a thread}, generated delays and repeat calls; W in 1..8; schedule); '
            'non-trivial = at least one caller found the control in progress and had to wait; distinct = hash of (program, schedule, seed)',
    'assumptions': COMMON_ASSUME,
    'stages': [
      {'kind': 'replays', 'name': 'replay', 'variant': 'v0'},
      {'kind': 'pbt', 'name': 'once-v0', 'variant': 'v0', 'prop': 14, 'cases': (1200, 20000), 'prog_max': 64, 'sched_max': 320},
      {'kind': 'pbt', 'name': 'once-v2', 'variant': 'v2', 'prop': 14, 'cases': (400, 10000), 'prog_max': 64, 'sched_max': 384},
    ],
  },
  'C01': {
    'rule': 'cases = (random spawn tree of <=64 (quick) / 400 (thorough) threads; per child: creation call (myth_create, create_ex with NULL attr, create_ex with an attribute object prepared by the public functions on pre-filled memory incl. custom stack size and child_first 0/1, create_ex with NULL id), join permutation and placement, yields, return vs myth_exit from nested frames; W in 1..8 (16 thorough); schedule bytes + seeded tail); '
            'non-trivial = at least one join really blocked (the joiner reached the block point) or a thread/joiner was resumed on another worker; distinct = hash of (decoded tree, schedule, seed)',
    'assumptions': COMMON_ASSUME,
    'stages': [
      {'kind': 'replays', 'name': 'replay', 'variant': 'v0'},
      {'kind': 'pbt', 'name': 'forkjoin-v0', 'variant': 'v0', 'prop': 1, 'cases': (1200, 20000), 'prog_max': 400, 'sched_max': 512},
      {'kind': 'pbt', 'name': 'forkjoin-v2', 'variant': 'v2', 'prop': 1, 'cases': (400, 10000), 'prog_max': 400, 'sched_max': 512},
    ],
  },
  'C04': {
    'rule': 'cases = (T threads x M mutexes, scripts of critical sections acquired by lock / trylock(retry|give-up) / timedlock(past|near|far on a virtual clock), nested in increasing index, yields inside/between; W in 1..8; schedule bytes + seeded tail); '
            'non-trivial = (a locker really blocked on the sleep queue AND a thread was resumed on another worker) OR an unlock had to wait for an announced-but-not-yet-enqueued locker; '
            'distinct = distinct hash of (decoded program, schedule bytes, seed)',
    'assumptions': COMMON_ASSUME + ['EBUSY/ETIMEDOUT judged by an interval model over the call log (possibly-held = entry of a successful acquire call .. return of the unlock call): sound, may miss a spurious failure that overlaps another acquire call'],
    'stages': [
      {'kind': 'replays', 'name': 'replay', 'variant': 'v0'},
      {'kind': 'pbt', 'name': 'mutex-v0', 'variant': 'v0', 'prop': 4, 'cases': (1500, 20000), 'prog_max': 160, 'sched_max': 320},
      {'kind': 'pbt', 'name': 'mutex-v2', 'variant': 'v2', 'prop': 4, 'cases': (400, 10000), 'prog_max': 160, 'sched_max': 384},
    ],
  },
  'C05': {
    'rule': 'cases = (program bytes decoded into bounded-buffer / gate / token-gate / turnstile condvar programs, notifications issued under the mutex or (one case in three) after releasing it, W in 1..8, schedule bytes + seeded tail) generated by rapidcheck; '
            'non-trivial = a cond_wait really blocked AND (the token was handed to another worker inside the enqueue..unlock window of a blocking call OR a waiter was resumed on a different worker); '
            'distinct = distinct hash of (decoded program, schedule bytes, seed)',
    'assumptions': COMMON_ASSUME,
    'stages': [
      {'kind': 'replays', 'name': 'replay', 'variant': 'v0'},
      {'kind': 'pbt', 'name': 'condvar-v0', 'variant': 'v0', 'prop': 5, 'cases': (1500, 20000), 'prog_max': 64, 'sched_max': 256},
      {'kind': 'pbt', 'name': 'condvar-v2', 'variant': 'v2', 'prop': 5, 'cases': (400, 10000), 'prog_max': 64, 'sched_max': 384},
    ],
  },
}
