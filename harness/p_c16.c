/* C16 -- pthread programs behave the same on MassiveThreads as on the system pthreads.
 *
 * The generated program lives in harness/pth_client.c (decoded from the same case bytes).  This
 * scenario runs it in up to five ways and requires identical stdout and exit status:
 *   R   plain binary, system libpthread                                   (reference)
 *   P   plain binary under LD_PRELOAD=libmyth-dl.so, W workers             (preloading, free running)
 *   L0  link-time wrapped binary with MYTH_WRAP_PTHREAD=0                  (wrapper passes everything through)
 *   L   link-time wrapped binary, W workers, controlled schedule from the case's schedule bytes
 *   Lf  link-time wrapped binary, W workers, free running
 * Hang verdicts of the controlled run (DEADLOCK / STUCK) are violations; wall-clock timeouts of the
 * free-running variants are inconclusive.
 */
#include "common.h"
#include <sys/wait.h>
#include <signal.h>
#include <fcntl.h>
#include <poll.h>
#include <sys/prctl.h>

typedef struct { int status, timed_out; char out[8192]; size_t n; char err[2048]; size_t en; } run_t;

static void run_client(const char * exe, const char * casefile, char * const envadd[], double timeout_s, run_t * r) {
  int po[2], pe[2]; if (pipe(po) || pipe(pe)) mt_reject("pipe failed");
  memset(r, 0, sizeof *r);
  pid_t pid = fork();
  if (pid == 0) {
    prctl(PR_SET_PDEATHSIG, SIGKILL);   /* a client must not outlive the case process (which the driver kills on its own timeout) */
    dup2(po[1], 1); dup2(pe[1], 2); close(po[0]); close(pe[0]); close(po[1]); close(pe[1]);
    for (int i = 0; envadd && envadd[i]; i++) putenv(envadd[i]);
    execl(exe, exe, casefile, (char *)0);
    _exit(126);
  }
  close(po[1]); close(pe[1]);
  struct pollfd pf[2] = { { po[0], POLLIN, 0 }, { pe[0], POLLIN, 0 } }; int open_fds = 2;
  struct timespec t0; clock_gettime(CLOCK_MONOTONIC, &t0);
  while (open_fds) {
    struct timespec t; clock_gettime(CLOCK_MONOTONIC, &t);
    double left = timeout_s - ((t.tv_sec - t0.tv_sec) + (t.tv_nsec - t0.tv_nsec) * 1e-9);
    if (left <= 0) { r->timed_out = 1; break; }
    int k = poll(pf, 2, (int)(left * 1000) + 1);
    if (k <= 0) { if (k == 0) { r->timed_out = 1; break; } continue; }
    for (int i = 0; i < 2; i++) if (pf[i].fd >= 0 && (pf[i].revents & (POLLIN | POLLHUP | POLLERR))) {
      char tmp[2048]; ssize_t m = read(pf[i].fd, tmp, sizeof tmp);
      if (m <= 0) { close(pf[i].fd); pf[i].fd = -1; open_fds--; continue; }
      if (i == 0) { size_t c = (size_t)m; if (r->n + c > sizeof r->out - 1) c = sizeof r->out - 1 - r->n; memcpy(r->out + r->n, tmp, c); r->n += c; }
      else { size_t c = (size_t)m; if (r->en + c > sizeof r->err - 1) c = sizeof r->err - 1 - r->en; memcpy(r->err + r->en, tmp, c); r->en += c; }
    }
  }
  if (r->timed_out) kill(pid, SIGKILL);
  for (int i = 0; i < 2; i++) if (pf[i].fd >= 0) close(pf[i].fd);
  waitpid(pid, &r->status, 0);
  r->out[r->n] = 0; r->err[r->en] = 0;
}

static const char * first_diff_line(const char * a, const char * b, char * buf, size_t cap) {
  const char * pa = a, * pb = b;
  while (*pa && *pb) {
    const char * ea = strchr(pa, '\n'), * eb = strchr(pb, '\n');
    size_t la = ea ? (size_t)(ea - pa) : strlen(pa), lb = eb ? (size_t)(eb - pb) : strlen(pb);
    if (la != lb || memcmp(pa, pb, la)) { snprintf(buf, cap, "expected \"%.*s\" got \"%.*s\"", (int)(la > 150 ? 150 : la), pa, (int)(lb > 150 ? 150 : lb), pb); return buf; }
    if (!ea || !eb) break; pa = ea + 1; pb = eb + 1;
  }
  snprintf(buf, cap, "outputs differ in length (%zu vs %zu bytes)", strlen(a), strlen(b)); return buf;
}

void scen_c16(mt_case * c) {
  const char * plain = getenv("MT_PTH_PLAIN"), * ld = getenv("MT_PTH_LD"), * dlso = getenv("MT_PTH_DLSO");
  if (!plain || !ld || !dlso) mt_reject("C16 clients not configured (MT_PTH_PLAIN / MT_PTH_LD / MT_PTH_DLSO)");
  /* the case file for the clients: the blob of this very case */
  char path[128]; snprintf(path, sizeof path, "/tmp/mtc16.%d.case", (int)getpid());
  {
    /* rebuild the blob from the parsed case */
    FILE * f = fopen(path, "wb"); if (!f) mt_reject("cannot write case file");
    uint8_t hdr[24]; memcpy(hdr, "MVC1", 4); hdr[4] = 16; hdr[5] = 0; hdr[6] = hdr[7] = 0;
    uint32_t seed = c->seed, l1 = (uint32_t)c->cfg.n, l2 = (uint32_t)c->prog.n, l3 = (uint32_t)c->sched_len;
    memcpy(hdr + 8, &seed, 4); memcpy(hdr + 12, &l1, 4); memcpy(hdr + 16, &l2, 4); memcpy(hdr + 20, &l3, 4);
    fwrite(hdr, 1, 24, f); fwrite(c->cfg.p, 1, l1, f); fwrite(c->prog.p, 1, l2, f); fwrite(c->sched, 1, l3, f); fclose(f);
  }
  int W = 1 + (int)((c->cfg.n > 0 ? c->cfg.p[0] : 0) % 8);
  char wenv[64]; snprintf(wenv, sizeof wenv, "MYTH_NUM_WORKERS=%d", W);
  char preload[512]; snprintf(preload, sizeof preload, "LD_PRELOAD=%s", dlso);
  run_t R, D, X;
  { char * e[] = { "PTH_DESCRIBE=1", 0 }; run_client(plain, path, e, 5, &D); }
  mt_desc("%s", D.out);
  mt_hash(c->prog.p, c->prog.n); mt_hash_u((uint64_t)W);
  mt_flush_early();
  { char * e[] = { 0 }; run_client(plain, path, e, 20, &R); }
  if (R.timed_out) { unlink(path); mv_verdict(MVV_INCONCLUSIVE, "reference run on system pthreads timed out"); }
  if (!WIFEXITED(R.status) || WEXITSTATUS(R.status) != 0 || R.n == 0) { unlink(path); mt_reject("reference run failed (harness problem)"); }
  struct { const char * name; const char * exe; char * env[5]; double to; } runs[] = {
    { "preloaded (libmyth-dl, free running)", plain, { preload, wenv, "MYTH_BIND_WORKERS=0", 0 }, 20 },
    { "link-time wrapped, MYTH_WRAP_PTHREAD=0", ld, { "MYTH_WRAP_PTHREAD=0", 0 }, 20 },
    { "link-time wrapped, controlled schedule", ld, { "MYTH_BIND_WORKERS=0", 0 }, 30 },
    { "link-time wrapped, free running", ld, { "PTH_FREE=1", wenv, "MYTH_BIND_WORKERS=0", 0 }, 20 },
  };
  int timeouts = 0; char buf[512];
  for (unsigned i = 0; i < sizeof runs / sizeof runs[0]; i++) {
    run_client(runs[i].exe, path, runs[i].env, runs[i].to, &X);
    if (X.timed_out) { timeouts++; continue; }
    /* engine verdict of the controlled run */
    const char * v = strstr(X.err, "V ");
    if (v && (v == X.err || v[-1] == '\n')) {
      int code = atoi(v + 2);
      if (code == MVV_DEADLOCK || code == MVV_STUCK) { unlink(path); mv_verdict(code, "%s: %.200s", runs[i].name, v + 4); }
      if (code == MVV_INCONCLUSIVE) { timeouts++; continue; }
    }
    if (WIFSIGNALED(X.status)) { unlink(path); mt_fail("%s: killed by signal %d (system pthreads run prints: %.80s...) stderr: %.200s", runs[i].name, WTERMSIG(X.status), R.out, X.err); }
    if (!WIFEXITED(X.status) || WEXITSTATUS(X.status) != WEXITSTATUS(R.status)) { unlink(path); mt_fail("%s: exit status %d, system pthreads run exits with %d; stderr: %.200s", runs[i].name, WEXITSTATUS(X.status), WEXITSTATUS(R.status), X.err); }
    if (X.n != R.n || memcmp(X.out, R.out, R.n)) { unlink(path); mt_fail("%s: result differs from the system pthreads run: %s", runs[i].name, first_diff_line(R.out, X.out, buf, sizeof buf)); }
  }
  unlink(path);
  if (timeouts) mt_label("a_variant_timed_out");
  /* classes from the description */
  static const char * groups[] = { "counter", "trycounter", "barrier", "turnstile", "spin", "once", "keyset", "child", "sleep", "gate", "self" };
  int ng = 0; for (unsigned g = 0; g < sizeof groups / sizeof groups[0]; g++) if (strstr(D.out, groups[g])) { mt_label(groups[g]); ng++; }
  mt_stat("api_groups", ng); mt_stat("timeouts", timeouts);
  if (timeouts == (int)(sizeof runs / sizeof runs[0])) mv_verdict(MVV_INCONCLUSIVE, "all redirected variants timed out");
  mt_nontrivial(ng >= 3 && W >= 2);
}
