/* C20 -- sleeping and timed waits respect their deadlines (virtual clock).
 *
 * The library's clock (hr_gettime) is served by the harness through the guarded clock hook:
 * generated start value (nanosecond field near 0 or near 999999999 to force carries) and a
 * generated cycle of per-reading increments (0, 1ns, 1us, 1ms, 0.3s, 2s ...; at least one > 0).
 * Every reading is attributed to the calling user-level thread (myth_self()), so each call's
 * first and last reading are known.
 * Program: T threads run scripts of
 *   NANOSLEEP(req) USLEEP(us) SLEEP(s)   durations incl. 0, carries, malformed (tv_nsec -1, 1e9, LONG_MAX; tv_sec < 0)
 *   TIMEDLOCK(m, deadline)  against holder sections of generated length
 *   TIMEDJOIN(deadline)     against a target that runs for a generated number of yields
 * plus, with one worker, an always-runnable sibling whose counter must advance during a sleep.
 * Oracle: sleep returns 0 and last reading - first reading >= request; malformed => EINVAL without
 * reading the clock; a timeout (ETIMEDOUT from timedlock, EBUSY from timedjoin) only if the last
 * reading handed to that call was >= the deadline; timedlock on a never-contended mutex and timedjoin
 * of a finished thread succeed whatever the deadline; a failed timedlock must overlap another
 * thread's possibly-holding interval.
 */
#include "scen_util.h"

enum { K_NANOSLEEP, K_USLEEP, K_SLEEP, K_BADSLEEP, K_TIMEDLOCK, K_TIMEDLOCK_FREE, K_TIMEDJOIN, K_HOLD, K_N };
static const char * kname[] = { "nanosleep", "usleep", "sleep", "nanosleep(malformed)", "timedlock", "timedlock(uncontended)", "timedjoin", "hold" };
typedef struct { int kind; long a, b; int k; } top_t;   /* a,b: request (sec,nsec) or deadline offset in ticks (a) + delta (b); k: yields */
#define MAXTOP 10
static struct {
  int T, W; int nop[8]; top_t op[8][MAXTOP];
  long inc[8]; int ninc; long start_s, start_ns;
  myth_mutex_t m, free_m[8]; witness_t w;
  volatile long sibling_cnt; volatile int stop_sibling; int sibling;
} Z;

/* per-thread clock attribution */
typedef struct { myth_thread_t self; long reads; long first_s, first_ns, last_s, last_ns; } clkrec_t;
static clkrec_t cr[16]; static int ncr;
static volatile long nreads; static long cur_s, cur_ns;
extern int (*volatile myth_verif_clock_fn)(struct timespec *);
static volatile int clk_lock;
static int vclock(struct timespec * ts) {
  while (__sync_lock_test_and_set(&clk_lock, 1)) { }
  long i = nreads++;
  cur_ns += Z.inc[i % Z.ninc];
  if (Z.inc[i % Z.ninc] > 0) mv_progress();     /* virtual time advancing is progress for the STUCK verdict */
  while (cur_ns >= 1000000000L) { cur_ns -= 1000000000L; cur_s++; }
  ts->tv_sec = cur_s; ts->tv_nsec = cur_ns;
  myth_thread_t me = myth_self();
  for (int k = 0; k < ncr; k++) if (cr[k].self == me) {
    if (cr[k].reads++ == 0) { cr[k].first_s = cur_s; cr[k].first_ns = cur_ns; }
    cr[k].last_s = cur_s; cr[k].last_ns = cur_ns; break;
  }
  __sync_lock_release(&clk_lock);
  return 0;
}
static clkrec_t * my_rec(void) {
  myth_thread_t me = myth_self();
  while (__sync_lock_test_and_set(&clk_lock, 1)) { }
  clkrec_t * r = 0;
  for (int k = 0; k < ncr; k++) if (cr[k].self == me) r = &cr[k];
  if (!r) { r = &cr[ncr++]; r->self = me; }
  r->reads = 0;
  __sync_lock_release(&clk_lock);
  return r;
}
/* a - b in ns, saturating */
static __int128 diff_ns(long as, long ans, long bs, long bns) { return ((__int128)as - bs) * 1000000000 + (ans - bns); }

/* absolute time = now + the sum of the next `ticks` increments + delta */
static void deadline_after(long ticks, long delta, struct timespec * ts) {
  while (__sync_lock_test_and_set(&clk_lock, 1)) { }
  __int128 t = (__int128)cur_s * 1000000000 + cur_ns;
  long i = nreads;
  __sync_lock_release(&clk_lock);
  /* "never": deadlines so far away that the call can only end by succeeding (the usual idioms) */
  if (ticks == -2) { ts->tv_sec = 0x7fffffffffffffffL; ts->tv_nsec = 999999999L; return; }
  if (ticks == -3) { ts->tv_sec = 20000000000L; ts->tv_nsec = 0; return; }
  if (ticks == -4) { ts->tv_sec = 0x7fffffffL; ts->tv_nsec = 0; return; }
  if (ticks < 0) t -= 5000000000LL; else for (long k = 0; k < ticks; k++) t += Z.inc[(i + k) % Z.ninc];
  t += delta; if (t < 0) t = 0;
  ts->tv_sec = (long)(t / 1000000000); ts->tv_nsec = (long)(t % 1000000000);
}

/* call log for the timedlock interval model (as in C04) */
enum { E_ENTER, E_OK, E_FAIL, E_UNL };
static struct { int th, ev; } lg[4096]; static volatile int nlg;
static void logev(int th, int ev) { int i = __sync_fetch_and_add(&nlg, 1); if (i < 4096) { lg[i].th = th; lg[i].ev = ev; } }

static int st_sleeps, st_waited_sleeps, st_bad, st_tl_to, st_tl_ok, st_tj_to, st_tj_ok, st_carry, st_rem, st_never;

static void * target_body(void * a) { int k = (int)(intptr_t)a; for (int i = 0; i < k; i++) { myth_yield(); mv_progress(); } return (void *)0x77; }
static void * sibling_body(void * a) { (void)a; while (!Z.stop_sibling) { Z.sibling_cnt++; mv_spin(US_GATE); myth_yield(); } return 0; }

static void * script(void * a) {
  int me = (int)(intptr_t)a;
  for (int i = 0; i < Z.nop[me]; i++) {
    top_t * o = &Z.op[me][i];
    clkrec_t * r = my_rec();
    switch (o->kind) {
    case K_NANOSLEEP: case K_USLEEP: case K_SLEEP: {
      long rs, rns; int rc;
      long sib0 = Z.sibling_cnt;
      if (o->kind == K_NANOSLEEP) { struct timespec rq = { o->a, o->b }, rm = { 77, 77 }; rs = o->a; rns = o->b; rc = myth_nanosleep(&rq, o->k == 0 ? 0 : o->k == 1 ? &rm : &rq); if (o->k) st_rem++; }
      else if (o->kind == K_USLEEP) { rs = o->a / 1000000; rns = (o->a % 1000000) * 1000; rc = myth_usleep((useconds_t)o->a); }
      else { rs = o->a; rns = 0; rc = (int)myth_sleep((unsigned)o->a); }
      if (rc != 0) mt_fail("%s(%ld,%ld) returned %d", kname[o->kind], o->a, o->b, rc);
      if (r->reads < 2) mt_fail("%s returned after %ld clock readings", kname[o->kind], r->reads);
      __int128 el = diff_ns(r->last_s, r->last_ns, r->first_s, r->first_ns), rq = (__int128)rs * 1000000000 + rns;
      if (el < rq) mt_fail("%s(%ld s, %ld ns) returned after only %ld ns on the library's clock (first reading %ld.%09ld, last %ld.%09ld)", kname[o->kind], rs, rns, (long)el, r->first_s, r->first_ns, r->last_s, r->last_ns);
      if (r->first_ns + rns >= 1000000000L) st_carry++;
      st_sleeps++;
      if (r->reads >= 3) { st_waited_sleeps++; if (Z.W == 1 && Z.sibling && Z.T == 1 && Z.sibling_cnt == sib0) mt_fail("one worker: a runnable sibling did not run during a sleep that polled the clock %ld times", r->reads); }
      break; }
    case K_BADSLEEP: {
      struct timespec rq = { o->a, o->b }, rm = { 77, 77 };
      int rc = myth_nanosleep(&rq, o->k == 0 ? 0 : o->k == 1 ? &rm : &rq);   /* the remaining-time argument: none, a separate object, or the request itself (nanosleep(&ts, &ts)) */
      if (o->k) st_rem++;
      if (rc != EINVAL) mt_fail("nanosleep({%ld,%ld}) returned %d, expected EINVAL", o->a, o->b, rc);
      if (r->reads != 0) mt_fail("nanosleep with a malformed duration read the clock %ld times", r->reads);
      st_bad++; break; }
    case K_HOLD:
      logev(me, E_ENTER);   /* before the call: the possibly-holding interval must contain the whole acquisition (free-running cases) */
      Z0(myth_mutex_lock(&Z.m)); logev(me, E_OK); wit_enter(&Z.w, "hold");
      do_yields(o->k);
      wit_leave(&Z.w, "hold"); Z0(myth_mutex_unlock(&Z.m)); logev(me, E_UNL);
      break;
    case K_TIMEDLOCK: case K_TIMEDLOCK_FREE: {
      struct timespec dl; deadline_after(o->a, o->b, &dl); if (o->a <= -2) st_never++;
      myth_mutex_t * mx = (o->kind == K_TIMEDLOCK) ? &Z.m : &Z.free_m[me];
      if (o->kind == K_TIMEDLOCK) logev(me, E_ENTER);
      int rc = myth_mutex_timedlock(mx, &dl);
      if (rc == 0) {
        st_tl_ok++;
        if (o->kind == K_TIMEDLOCK) { logev(me, E_OK); wit_enter(&Z.w, "timedlock"); do_yields(o->k); wit_leave(&Z.w, "timedlock"); Z0(myth_mutex_unlock(mx)); logev(me, E_UNL); }
        else Z0(myth_mutex_unlock(mx));
      } else if (rc == ETIMEDOUT) {
        st_tl_to++;
        if (o->a <= -2) mt_fail("timedlock with the deadline %ld.%09ld (never) timed out", (long)dl.tv_sec, dl.tv_nsec);
        if (o->kind == K_TIMEDLOCK_FREE) mt_fail("timedlock on a mutex nobody else uses timed out");
        logev(me, E_FAIL);
        if (r->reads == 0 || diff_ns(r->last_s, r->last_ns, dl.tv_sec, dl.tv_nsec) < 0)
          mt_fail("timedlock timed out at %ld.%09ld (last clock reading of the call, %ld readings), before its deadline %ld.%09ld", r->last_s, r->last_ns, r->reads, (long)dl.tv_sec, dl.tv_nsec);
      } else mt_fail("timedlock returned %d", rc);
      break; }
    case K_TIMEDJOIN: {
      myth_thread_t t; Z0(mt_create(&t, target_body, (void *)(intptr_t)o->k));
      if (o->b == 7) { do_yields(o->k + 2); }          /* sometimes let the target finish first */
      r = my_rec();
      struct timespec dl; deadline_after(o->a, o->b == 7 ? 0 : o->b, &dl);
      void * rv = 0;
      int rc = myth_timedjoin(t, &rv, &dl);
      if (rc == 0) { st_tj_ok++; if (rv != (void *)0x77) mt_fail("timedjoin delivered %p", rv); }
      else {
        st_tj_to++;
        if (o->a <= -2) mt_fail("timedjoin with the deadline %ld.%09ld (never) gave up (rc=%d)", (long)dl.tv_sec, dl.tv_nsec, rc);
        if (r->reads == 0 || diff_ns(r->last_s, r->last_ns, dl.tv_sec, dl.tv_nsec) < 0)
          mt_fail("timedjoin gave up (rc=%d) at %ld.%09ld, before its deadline %ld.%09ld", rc, r->last_s, r->last_ns, (long)dl.tv_sec, dl.tv_nsec);
        Z0(myth_join(t, &rv));
        if (rv != (void *)0x77) mt_fail("join after timedjoin timeout delivered %p", rv);
      }
      break; }
    }
    op_done();
  }
  return 0;
}

void scen_c20(mt_case * c) {
  mt_engine_cfg e; rd_t * r = &c->prog;
  mt_decode_engine(c, &e, 8);
  static const long incs[] = { 0, 1, 999, 1000, 1000000, 300000000L, 999999999L, 2000000000L, 1 };
  Z.ninc = rd_range(r, 1, 8);
  long sum = 0;
  for (int i = 0; i < Z.ninc; i++) { Z.inc[i] = incs[rd_below(r, 9)]; sum += Z.inc[i]; }
  if (sum == 0) Z.inc[0] = 1;
  Z.start_s = (long[]){ 0, 1, 1700000000L, 2147483647L, 4000000000L }[rd_below(r, 5)];
  Z.start_ns = (long[]){ 0, 1, 500000000L, 999999998L, 999999999L }[rd_below(r, 5)];
  cur_s = Z.start_s; cur_ns = Z.start_ns;
  long avg = 0; for (int i = 0; i < Z.ninc; i++) avg += Z.inc[i]; avg = avg / Z.ninc + 1;
  Z.T = rd_range(r, 1, 4);
  Z.sibling = (int)rd_below(r, 2);
  if (rd_below(r, 4) == 0) { e.W = 1; Z.T = 1; Z.sibling = 1; }
  Z.W = e.W;
  mt_desc("C20 clock start %ld.%09ld increments:", Z.start_s, Z.start_ns);
  for (int i = 0; i < Z.ninc; i++) mt_desc(" %ld", Z.inc[i]);
  mt_desc(" threads=%d sibling=%d\n", Z.T, Z.sibling);
  for (int t = 0; t < Z.T; t++) {
    Z.nop[t] = rd_range(r, 1, c->tier ? MAXTOP : 6);
    mt_desc(" t%d:", t);
    for (int i = 0; i < Z.nop[t]; i++) {
      top_t * o = &Z.op[t][i]; memset(o, 0, sizeof *o);
      o->kind = (int)rd_below(r, K_N);
      long ticks = rd_range(r, 0, 24), delta = (long[]){ 0, -1, 1, 0 }[rd_below(r, 4)];
      __int128 dur = (__int128)ticks * avg + delta; if (dur < 0) dur = 0;
      switch (o->kind) {
      case K_NANOSLEEP: o->a = (long)(dur / 1000000000); o->b = (long)(dur % 1000000000);
        if (rd_below(r, 4) == 0 && avg >= 20000000L) o->b = (long[]){ 0, 999999999L, 1, 500000000L }[rd_below(r, 4)];   /* only when the clock steps are large enough to get there in <= ~50 polls */
        break;
      case K_USLEEP: o->a = (long)(dur / 1000); if (o->a > 4000000000L) o->a = 4000000000L; break;
      case K_SLEEP: o->a = (long)(dur / 1000000000); if (o->a > 100) o->a = 100; if (avg < 10000000) o->a = 0; break;
      case K_BADSLEEP: { int w = (int)rd_below(r, 5); o->a = (w == 3) ? -1 : (w == 4 ? -1000000 : (long)rd_below(r, 3)); o->b = (w == 0) ? -1 : (w == 1 ? 1000000000L : (w == 2 ? 0x7fffffffffffffffL : 5)); break; }
      case K_TIMEDLOCK: case K_TIMEDLOCK_FREE: case K_TIMEDJOIN: o->a = (rd_below(r, 4) == 0) ? -1 : ticks >= 22 ? ((20 - ticks == -4 && Z.start_s > 1700000000L) ? -3 : 20 - ticks) /* -2, -3, -4: never (the 2038 one only while the generated clock is far below it) */ : ticks; o->b = delta; o->k = (int)rd_below(r, 5); if (o->kind == K_TIMEDJOIN && rd_below(r, 4) == 0) o->b = 7; break;
      case K_HOLD: o->k = (int)rd_below(r, 6); break;
      }
      if (o->kind == K_NANOSLEEP || o->kind == K_BADSLEEP) o->k = (int)((ticks * 5 + (delta & 3) + i + t) % 3);   /* rem: 0 NULL, 1 separate, 2 same object as req */
      mt_desc(" %s(%ld,%ld,%s%d)", kname[o->kind], o->a, o->b, (o->kind == K_NANOSLEEP || o->kind == K_BADSLEEP) ? "rem" : "y", o->k);
    }
    mt_desc("\n");
  }
  mt_hash(c->prog.p, c->prog.pos);
  myth_verif_clock_fn = vclock;
  mt_allow_prelude = 1;
  mt_lib_start(c, &e, 0);
  MT_DIRTY(Z.m); MT_DIRTY(Z.free_m); Z0(myth_mutex_init(&Z.m, 0)); for (int i = 0; i < 8; i++) Z0(myth_mutex_init(&Z.free_m[i], 0));
  myth_thread_t th[8], sib = 0;
  if (Z.sibling) Z0(mt_create(&sib, sibling_body, 0));
  for (int t = 0; t < Z.T; t++) Z0(mt_create(&th[t], script, (void *)(intptr_t)t));
  for (int t = 0; t < Z.T; t++) { Z0(myth_join(th[t], 0)); mv_progress(); }
  Z.stop_sibling = 1;
  if (sib) Z0(myth_join(sib, 0));
  mt_lib_finish();
  /* interval model for contended timedlock timeouts */
  int n = nlg < 4096 ? nlg : 4096;
  for (int i = 0; i < n; i++) if (lg[i].ev == E_FAIL) {
    int a = -1, t = lg[i].th, overlap = 0;
    for (int j = i - 1; j >= 0; j--) if (lg[j].th == t && lg[j].ev == E_ENTER) { a = j; break; }
    for (int u = 0; u < Z.T && !overlap; u++) {
      if (u == t) continue;
      int ent = -1, from = -1;
      for (int j = 0; j < n; j++) { if (lg[j].th != u) continue;
        if (lg[j].ev == E_ENTER) ent = j; else if (lg[j].ev == E_OK) from = ent;
        else if (lg[j].ev == E_UNL) { if (from >= 0 && from <= i && j >= a) overlap = 1; from = -1; }
        else if (lg[j].ev == E_FAIL) ent = -1; }
      if (from >= 0 && from <= i) overlap = 1;
    }
    if (!overlap) mt_fail("timedlock of thread %d timed out although nobody held or was acquiring the mutex during the call", t);
  }
  mt_stat("sleeps", st_sleeps); mt_stat("sleeps_that_polled", st_waited_sleeps); mt_stat("malformed", st_bad); mt_stat("carry_sleeps", st_carry);
  mt_stat("timedlock_timeout", st_tl_to); mt_stat("timedlock_ok", st_tl_ok); mt_stat("timedjoin_timeout", st_tj_to); mt_stat("timedjoin_ok", st_tj_ok); mt_stat("clock_reads", nreads);
  if (st_waited_sleeps) mt_label("sleep_polled"); if (st_bad) mt_label("malformed_duration"); if (st_carry) mt_label("nsec_carry"); if (st_rem) mt_label("rem_argument"); if (st_never) mt_label("deadline_never");
  if (st_tl_to) mt_label("timedlock_timeout"); if (st_tl_ok) mt_label("timedlock_ok"); if (st_tj_to) mt_label("timedjoin_timeout"); if (st_tj_ok) mt_label("timedjoin_ok");
  if (Z.W == 1) mt_label("W1");
  mt_nontrivial(st_waited_sleeps > 0 || st_tl_to > 0 || st_tj_to > 0);
}
