/* C12 -- stacks and records are never reused or released while in use;
 * C13 -- each thread is reaped exactly once and reaping recycles its resources.
 *
 * Program: a manager (the main thread) executes a generated history over S slots:
 *   CREATE(slot, body kind, attribute)   body kinds: QUICK / YIELDER(k) / WAITER (runs until released) /
 *                                        SPAWNER (creates and joins a grandchild)
 *                                        attribute: none / custom stack size / detach state / parent-first
 *   RELEASE(slot)  JOIN(slot)  TRYJOIN(slot)  TIMEDJOIN(slot, past|near|far)  DETACH(slot)  YIELD(k)
 *   CYCLES(n)      n x (create QUICK; join)        -- bounded-memory clause
 * Every body fills a buffer on its own stack (size by stack class) with a canary and verifies it
 * after every resumption and at the end; it writes a region checked at reap time.
 * Oracle: the resource ledger (ledger.c) fed by the guarded alloc/free hooks + the model kept
 * here (ended / reaped / detached): double release, release of a running stack, overlap of live
 * stacks, allocation of an owned block, write after release, record released before the thread
 * ended or before it was reaped, exit value intact at late joins; at quiescence every reaped or
 * detached thread's record and stack are free exactly once and every unreaped record is still
 * owned; with one worker the number of fresh records/stacks equals the maximum simultaneously
 * owned (bounded memory); tryjoin 0 => ended and value correct, with one worker EBUSY <=> not
 * ended; timedjoin gives up only after its deadline on the virtual clock.
 */
#include "scen_util.h"
#include "ledger.h"

enum { O_CREATE, O_RELEASE, O_JOIN, O_TRYJOIN, O_TIMEDJOIN, O_DETACH, O_YIELD, O_CYCLES, O_NOPS };
enum { B_QUICK, B_YIELDER, B_WAITER, B_SPAWNER, B_NKINDS };
static const char * bname[] = { "quick", "yielder", "waiter", "spawner" };
/* 0 = default stack; 16500..70001 are not page multiples (rounded up by the allocator); 8192..12288 are the
   smallest classes that still hold the frames of the library plus this harness (measured: at most 4.3 KiB
   at -O0, see min_stack_room) -- one page does not, and under ASan the frames are larger, so there the
   small classes are replaced by 16 KiB */
#if defined(__SANITIZE_ADDRESS__)
#define SMALL_STK(x) 16384
#define PAINT_STACKS 0
#elif defined(__has_feature)
#if __has_feature(address_sanitizer)
#define SMALL_STK(x) 16384
#define PAINT_STACKS 0
#endif
#endif
#ifndef SMALL_STK
#define SMALL_STK(x) (x)
#define PAINT_STACKS 1
#endif
static const size_t stk_sz[] = { 0, 0, 16384, 24576, 32768, 65536, 69632, 131072, 262144, 16500, 20000, 33000, 70001, SMALL_STK(8192), SMALL_STK(12288), SMALL_STK(9000) };
#define NSTKSZ (int)(sizeof stk_sz / sizeof stk_sz[0])

typedef struct tnode {
  int id, kind, k, stk, detach_attr, parent_first, canary_len; size_t cd;
  volatile int release, started, ended;
  int reaped, detached_called, handle_valid, is_grandchild;
  myth_thread_t h;
  lthread_t * le;
  uint8_t region[32];
} tnode_t;
#define MAXTN 30000
static tnode_t * T; static int nT;
typedef struct { int op, slot, a, b, c, d; } hop_t;
#define MAXOPS 400
static hop_t ops[MAXOPS]; static int nops, S, gW;
static int slot_t[64];   /* slot -> node index or -1 */
static int stat_late_join, stat_tryjoin_busy, stat_tryjoin_ok, stat_timed_to, stat_timed_ok, stat_detach_running, stat_detach_finished, stat_migr;

/* virtual clock */
static volatile long clk; static long clk_step = 1000000;   /* ns per reading */
#define CLK_BASE_S 2000000L
static int vclock(struct timespec * ts) {
  long r = __sync_add_and_fetch(&clk, 1); long ns = r * clk_step;
  ts->tv_sec = CLK_BASE_S + ns / 1000000000L; ts->tv_nsec = ns % 1000000000L; return 0;
}
static long clk_last_ns(void) { return clk * clk_step; }
extern int (*volatile myth_verif_clock_fn)(struct timespec *);

static void * expected(tnode_t * n) { return (void *)(uintptr_t)(0x9000 + n->id * 13); }
static void * gbody(void * a);
static uint8_t cd_pat[128]; static long stat_cd;
static void cd_verify(size_t want, int id, const char * when) {
  if (!want) return;
  size_t sz = myth_wsapi_get_hint_size(0); uint8_t * p = myth_wsapi_get_hint_ptr(0);
  if (sz != want || !p) mt_fail("thread %d created with %zu bytes of custom data: size %zu pointer %p (%s)", id, want, sz, (void *)p, when);
  for (size_t i = 0; i < want; i++) if (p[i] != cd_pat[i]) mt_fail("thread %d: custom data byte %zu differs %s", id, i, when);
}
static volatile long stat_min_room = 1 << 30;

static void canary_check(tnode_t * n, volatile uint8_t * buf) {
  for (int i = 0; i < n->canary_len; i += 61) if (buf[i] != (uint8_t)(n->id + i)) mt_fail("stack contents of thread %d corrupted at offset %d while it was suspended", n->id, i);
}

static void * __attribute__((noinline)) body_main(tnode_t * n, volatile uint8_t * buf) {
  int w0 = myth_get_worker_num();
  for (int i = 0; i < n->canary_len; i++) buf[i] = (uint8_t)(n->id + i);
  for (unsigned i = 0; i < sizeof n->region / 2; i++) n->region[i] = (uint8_t)(n->id * 3 + i);
  switch (n->kind) {
  case B_QUICK: break;
  case B_YIELDER: for (int i = 0; i < n->k; i++) { myth_yield(); mv_progress(); canary_check(n, buf); } break;
  case B_WAITER: while (!n->release) { mv_spin(US_GATE); myth_yield(); canary_check(n, buf); } break;
  case B_SPAWNER: {
    tnode_t * g = &T[n->k];
    Z0(myth_create_ex(&g->h, 0, gbody, g)); g->handle_valid = 1;
    mv_progress(); canary_check(n, buf);
    void * rv = 0;
    if (g->le) g->le->reap_started = 1; else { lthread_t * le = ledger_of_desc(g->h); if (le) le->reap_started = 1; }
    g->reaped = 1;
    Z0(myth_join(g->h, &rv));
    if (rv != expected(g)) mt_fail("grandchild %d: joined value %p != %p", g->id, rv, expected(g));
    canary_check(n, buf);
    break; }
  }
  canary_check(n, buf);
  for (unsigned i = sizeof n->region / 2; i < sizeof n->region; i++) n->region[i] = (uint8_t)(n->id * 3 + i);
  if (myth_get_worker_num() != w0) __sync_fetch_and_add(&stat_migr, 1);
  return expected(n);
}

static void * gbody(void * a) {
  tnode_t * n = a;
  if (__sync_add_and_fetch(&n->started, 1) != 1) mt_fail("thread %d started twice", n->id);
  lthread_t * le = ledger_self(myth_self());
  if (!le) mt_fail("ledger: running thread %d has no owned record", n->id);
  le->user = n; n->le = le;
  if (n->detach_attr || n->reaped || n->detached_called) le->reap_started = 1;
  mv_progress();
  /* paint the unused part of this stack so that the deepest point the thread (library and harness frames
     included) ever reaches can be read off at the end */
  char * sp0 = __builtin_frame_address(0), * plo = le->lo;
  int painted = PAINT_STACKS && plo && sp0 > plo + 1024 && sp0 <= le->hi;
  if (painted) memset(plo, 0xEE, (size_t)(sp0 - 512 - plo));
  /* canary buffer on this thread's own stack */
  volatile uint8_t * buf = __builtin_alloca((size_t)n->canary_len + 16);
  cd_verify(n->cd, n->id, "when the thread starts");
  void * rv = body_main(n, buf);
  cd_verify(n->cd, n->id, "when the thread function ends");
  if (painted) {
    long room = 0; while (plo + room < sp0 - 512 && (uint8_t)plo[room] == 0xEE) room++;
    long cur = stat_min_room; while (room < cur && !__sync_bool_compare_and_swap(&stat_min_room, cur, room)) cur = stat_min_room;
  }
  n->ended = 1; le->ended = 1;
  mv_progress();
  return rv;
}

static void check_reaped_value(tnode_t * n, void * rv, const char * how) {
  if (!n->ended) mt_fail("%s of thread %d succeeded before its function finished", how, n->id);
  if (rv != expected(n)) mt_fail("%s of thread %d delivered %p, expected %p (record not intact)", how, n->id, rv, expected(n));
  for (unsigned i = 0; i < sizeof n->region; i++) if (n->region[i] != (uint8_t)(n->id * 3 + i)) mt_fail("%s: effects of thread %d incomplete", how, n->id);
}

static void mark_reap(tnode_t * n) { n->reaped = 1; if (n->le) n->le->reap_started = 1; else { lthread_t * le = ledger_of_desc(n->h); if (le && (le->user == n || !le->user)) { le->reap_started = 1; } } }

static tnode_t * new_node(int kind, int k, int stk, int det, int pf) {
  if (nT >= MAXTN) mt_reject("too many threads");
  tnode_t * n = &T[nT]; memset(n, 0, sizeof *n); n->id = nT++;
  n->kind = kind; n->k = k; n->stk = stk; n->detach_attr = det; n->parent_first = pf;
  size_t sz = stk_sz[stk] ? stk_sz[stk] : 131072;
  n->canary_len = (int)(sz / 4);
  if (sz < 16384) n->canary_len = (int)(sz / 16);
  if (n->canary_len > 16384) n->canary_len = 16384;
  return n;
}

static void do_create(tnode_t * n) {
  myth_thread_attr_t at; myth_thread_attr_t * ap = 0;
  if (stk_sz[n->stk] || n->detach_attr || n->parent_first) {
    myth_thread_attr_init(&at);
    if (stk_sz[n->stk]) myth_thread_attr_setstacksize(&at, stk_sz[n->stk]); else if (n->stk == 0) at.stacksize = 0;   /* index 1: keep attr_init's default size (custom-size path) */
    if (n->detach_attr) myth_thread_attr_setdetachstate(&at, 1);
    at.child_first = !n->parent_first;
    /* custom data (work-stealing hint): copied to the top of the new thread's stack, next to the word that records the
       size of the stack block */
    n->cd = (size_t[]){ 0, 0, 12, 28, 100, 8 }[(n->id + n->stk) % 6];
    if (n->cd) { if (!cd_pat[1]) for (int i = 0; i < 128; i++) cd_pat[i] = (uint8_t)(i * 5 + 1); at.custom_data = cd_pat; at.custom_data_size = n->cd; stat_cd++; }
    ap = &at;
  }
  int r = myth_create_ex(&n->h, ap, gbody, n);
  if (r) mt_fail("myth_create_ex returned %d", r);
  n->handle_valid = 1;
  if (n->detach_attr) { n->reaped = 1; n->handle_valid = 0; lthread_t * le = ledger_of_desc(n->h); if (le && (le->user == n || !le->user) && !n->ended) le->reap_started = 1; }
  mv_progress();
}

static int known(const char * id) { const char * k = getenv("MT_KNOWN"); return k && strstr(k, id); }

static void run_history(mt_case * c, int prop) {
  mt_engine_cfg e; rd_t * r = &c->prog;
  mt_decode_engine(c, &e, 8);
  gW = e.W;
  if (prop == 13 && rd_below(r, 3) == 0) { e.W = 1; gW = 1; }    /* the bounded-memory clause is about one worker */
  S = rd_range(r, 1, 12);
  int maxops = c->tier ? MAXOPS : 60;
  nops = rd_range(r, 4, maxops);
  T = calloc(MAXTN, sizeof *T);
  clk_step = (long[]){ 1, 1000, 1000000, 700000000L }[rd_below(r, 4)];
  for (int i = 0; i < 64; i++) slot_t[i] = -1;
  mt_desc("C%d history slots=%d ops=%d clock_step=%ldns\n ", prop, S, nops, clk_step);
  /* decode the history; the model (slot occupancy) is tracked at decode time so that only
     applicable operations are emitted (construction, not rejection) */
  int occ[64], kindof[64], released[64], det[64]; memset(occ, 0, sizeof occ);
  int n_detattr = 0;
  for (int i = 0; i < nops; i++) {
    hop_t * o = &ops[i]; memset(o, 0, sizeof *o);
    unsigned b = rd_u8(r);
    o->slot = (int)rd_below(r, (unsigned)S);
    int want = (int)(b % O_NOPS);
    if (prop == 12 && (want == O_TRYJOIN || want == O_TIMEDJOIN) && (b & 0x40)) want = O_JOIN;
    if (!occ[o->slot]) {
      if (want == O_CYCLES && (b & 0x80)) { o->op = O_CYCLES; o->a = rd_range(r, 1, c->tier ? 3000 : 150); }
      else if (want == O_YIELD) { o->op = O_YIELD; o->a = rd_range(r, 1, 3); }
      else {
        o->op = O_CREATE; o->a = (int)rd_below(r, B_NKINDS); o->b = rd_range(r, 1, 4);
        o->c = (int)rd_below(r, NSTKSZ);
        unsigned ab = rd_u8(r);
        o->d = ((ab & 7) == 0 ? 1 : 0) | ((ab & 0x30) == 0 ? 2 : 0);          /* bit0 detach attribute, bit1 parent first */
        if ((o->d & 1) && known("F4")) { o->d &= ~1; mt_known("F4"); }
        if (o->d & 1) n_detattr++;
        occ[o->slot] = (o->d & 1) ? 0 : 1;    /* a thread created detached leaves no handle */
        kindof[o->slot] = o->a; released[o->slot] = 0; det[o->slot] = 0;
      }
    } else {
      if (want == O_CREATE || want == O_CYCLES) want = O_JOIN;
      o->op = want;
      switch (want) {
      case O_RELEASE: released[o->slot] = 1; break;
      case O_JOIN: occ[o->slot] = 0; break;
      case O_TRYJOIN: o->a = rd_range(r, 1, 4); break;                          /* polls */
      case O_TIMEDJOIN: o->a = (int)rd_below(r, 3); break;                      /* past / near / far */
      case O_DETACH: occ[o->slot] = 0; break;
      case O_YIELD: o->a = rd_range(r, 1, 3); break;
      }
    }
    static const char * on[] = { "create", "release", "join", "tryjoin", "timedjoin", "detach", "yield", "cycles" };
    if (i < 70) { if (o->op == O_CREATE) mt_desc("%s(s%d,%s/%d,stk=%zu%s%s) ", on[o->op], o->slot, bname[o->a], o->b, stk_sz[o->c], (o->d & 1) ? ",detached" : "", (o->d & 2) ? ",parent-first" : ""); else mt_desc("%s(s%d,%d) ", on[o->op], o->slot, o->a); }
  }
  (void)kindof; (void)released; (void)det;
  mt_desc("\n");
  mt_hash(c->prog.p, c->prog.pos);
  myth_verif_clock_fn = vclock;
  ledger_install(131072);
  mt_lib_start(c, &e, 131072);

  for (int i = 0; i < nops; i++) {
    hop_t * o = &ops[i];
    tnode_t * n = slot_t[o->slot] >= 0 ? &T[slot_t[o->slot]] : 0;
    switch (o->op) {
    case O_CREATE: {
      int kind = o->a, k = o->b;
      if (kind == B_SPAWNER) { tnode_t * g = new_node(B_YIELDER, o->b, 0, 0, 0); g->is_grandchild = 1; k = g->id; }
      tnode_t * t = new_node(kind, k, o->c, o->d & 1, (o->d & 2) != 0);
      do_create(t);
      if (!t->detach_attr) slot_t[o->slot] = t->id;
      break; }
    case O_RELEASE: if (n) n->release = 1; break;
    case O_JOIN: {
      if (!n) break;
      n->release = 1;            /* a waiter must be able to finish; the join still blocks first */
      if (n->ended) stat_late_join++;
      void * rv = 0; mark_reap(n);
      if (myth_join(n->h, &rv)) mt_fail("myth_join failed");
      check_reaped_value(n, rv, "join");
      n->handle_valid = 0; slot_t[o->slot] = -1; break; }
    case O_TRYJOIN: {
      if (!n) break;
      for (int p = 0; p < o->a && n->handle_valid; p++) {
        void * rv = 0;
        int ended_before = n->ended;
        lthread_t * le = n->le ? n->le : ledger_of_desc(n->h);
        int prev = le ? le->reap_started : 0;
        if (le) le->reap_started = 1;         /* a reaping call is in progress */
        int rc = myth_tryjoin(n->h, &rv);
        if (rc == 0) { n->reaped = 1; check_reaped_value(n, rv, "tryjoin"); n->handle_valid = 0; slot_t[o->slot] = -1; stat_tryjoin_ok++; }
        else if (rc == EBUSY) {
          if (le) le->reap_started = prev;
          stat_tryjoin_busy++;
          if (gW == 1 && e.mode == MV_CONTROLLED && ended_before) mt_fail("tryjoin reported busy for thread %d although it had finished (one worker)", n->id);
          myth_yield(); mv_progress();
        } else mt_fail("tryjoin returned %d", rc);
        if (rc == 0 && gW == 1 && !ended_before) mt_fail("tryjoin succeeded on unfinished thread %d", n->id);
      }
      break; }
    case O_TIMEDJOIN: {
      if (!n) break;
      struct timespec dl; long now_ns = clk_last_ns(), d_ns;
      if (o->a == 0) d_ns = now_ns - 5 * clk_step - 1000; else if (o->a == 1) d_ns = now_ns + 4 * clk_step; else { d_ns = now_ns + 4000000000000L; n->release = 1; }
      if (d_ns < 0) d_ns = 0;
      dl.tv_sec = CLK_BASE_S + d_ns / 1000000000L; dl.tv_nsec = d_ns % 1000000000L;
      if (o->a == 2 && (o->slot & 1)) { dl.tv_sec = (o->slot & 2) ? 0x7fffffffffffffffL : 20000000000L; dl.tv_nsec = (o->slot & 2) ? 999999999L : 0; d_ns = 0x7fffffffffffffffL; }   /* the "never" idioms */
      void * rv = 0;
      lthread_t * le = n->le ? n->le : ledger_of_desc(n->h);
      int prev = le ? le->reap_started : 0; if (le) le->reap_started = 1;
      int rc = myth_timedjoin(n->h, &rv, &dl);
      if (rc == 0) { n->reaped = 1; check_reaped_value(n, rv, "timedjoin"); n->handle_valid = 0; slot_t[o->slot] = -1; stat_timed_ok++; }
      else {
        if (le) le->reap_started = prev;
        stat_timed_to++;
        if (o->a == 2 && d_ns == 0x7fffffffffffffffL) mt_fail("timedjoin with a deadline that never comes (%ld.%09ld) gave up (rc=%d)", (long)dl.tv_sec, dl.tv_nsec, rc);   /* a finite far deadline can legitimately pass when the clock step is large and the target is slow: the general rule below decides */
        if (clk_last_ns() < d_ns) mt_fail("timedjoin gave up (rc=%d) at virtual time %ldns, before its deadline %ldns", rc, clk_last_ns(), d_ns);
      }
      mv_progress(); break; }
    case O_DETACH: {
      if (!n) break;
      if (n->ended) stat_detach_finished++; else stat_detach_running++;
      n->detached_called = 1; mark_reap(n);
      if (myth_detach(n->h)) mt_fail("myth_detach failed");
      n->handle_valid = 0; slot_t[o->slot] = -1; mv_progress(); break; }
    case O_YIELD: do_yields(o->a); break;
    case O_CYCLES:
      for (int k = 0; k < o->a; k++) {
        tnode_t * t = new_node(B_QUICK, 0, 0, 0, 0);
        do_create(t); void * rv = 0; mark_reap(t);
        if (myth_join(t->h, &rv)) mt_fail("join failed"); check_reaped_value(t, rv, "join");
        t->handle_valid = 0;
      }
      break;
    }
    mv_progress();
  }
  /* quiescence: let everything finish (unreaped threads stay unreaped) */
  for (int i = 0; i < nT; i++) T[i].release = 1;
  for (;;) {
    int pending = 0;
    for (int i = 0; i < nT; i++) { tnode_t * n = &T[i]; if (!n->ended || !n->le || n->le->stack_state != 2) { pending = 1; break; } }
    if (!pending) break;
    mv_spin(US_WAITDET); myth_yield();
  }
  /* a detached / detached-attribute thread releases its record in its final callback: give those a turn */
  mv_progress();
  {
    /* controlled runs: 24 turns of every worker are a schedule bound (a record still owned after that was not
       released).  Free-running runs (noise mode) have no such bound: the releasing worker's OS thread may simply
       not have been scheduled yet, so wait in real time and call the case inconclusive if that is not enough */
    struct timespec t0; clock_gettime(CLOCK_MONOTONIC, &t0);
    for (int round = 0; ; round++) {
      int pending = 0;
      for (int i = 0; i < nT; i++) { tnode_t * n = &T[i]; if ((n->detached_called || n->detach_attr) && n->le->desc_state != 2) pending = 1; }
      if (!pending) break;
      if (e.mode == MV_CONTROLLED) { if (round >= 24) break; }
      else {
        struct timespec t1; clock_gettime(CLOCK_MONOTONIC, &t1);
        if ((t1.tv_sec - t0.tv_sec) + (t1.tv_nsec - t0.tv_nsec) * 1e-9 > 8.0) mv_verdict(MVV_INCONCLUSIVE, "free-running case: the record of a detached thread was not released within 8 s of real time");
      }
      mv_spin(US_WAITDET); myth_yield();
    }
  }
  mt_lib_finish();

  int unreaped = 0, n_det = 0;
  for (int i = 0; i < nT; i++) {
    tnode_t * n = &T[i]; lthread_t * le = n->le;
    if (n->started != 1) mt_fail("thread %d started %d times", n->id, n->started);
    for (unsigned k = 0; k < sizeof n->region; k++) if (n->region[k] != (uint8_t)(n->id * 3 + k)) mt_fail("thread %d (detached=%d) did not complete its effects", n->id, n->detached_called || n->detach_attr);
    if (le->stack_frees != 1 || le->stack_state != 2) mt_fail("thread %d: stack released %d times (state %d)", n->id, le->stack_frees, le->stack_state);
    if (n->reaped || n->detached_called || n->detach_attr) {
      if (n->detached_called || n->detach_attr) n_det++;
      if (le->desc_frees != 1 || le->desc_state != 2)
        mt_fail("thread %d was %s but its record was released %d times (state %s): reaping did not recycle it", n->id,
                n->detach_attr ? "created with the detached attribute" : n->detached_called ? "detached" : "joined", le->desc_frees, le->desc_state == 1 ? "still owned" : "free");
    } else {
      unreaped++;
      if (le->desc_state != 1 || le->desc_frees != 0) mt_fail("thread %d was never reaped but its record was released", n->id);
    }
  }
  long fd, fs, md, ms, cf, rc; ledger_counts(&fd, &fs, &md, &ms, &cf, &rc);
  if (gW == 1) {
    /* one worker: a fresh block is obtained only when every block ever obtained is in use */
    if (fd > md) mt_fail("one worker: %ld fresh records obtained although at most %ld were ever in use at once (reaped records are not reused)", fd, md);
    if (fs > ms) mt_fail("one worker: %ld fresh default stacks obtained although at most %ld were ever in use at once", fs, ms);
  }
  if (stat_min_room < (1 << 30)) mt_stat("min_stack_room", stat_min_room);
  if (getenv("MT_ROOM_FAIL") && stat_min_room < atol(getenv("MT_ROOM_FAIL"))) mt_fail("room %ld", (long)stat_min_room);
  if (stat_min_room < 768) mt_reject("a thread came within 768 bytes of the end of its stack: the harness frames need more than this stack class offers");
  if (stat_cd) mt_label("custom_data_attribute");
  mt_stat("threads", nT); mt_stat("fresh_records", fd); mt_stat("max_owned_records", md); mt_stat("fresh_stacks", fs); mt_stat("max_owned_stacks", ms);
  mt_stat("cross_worker_frees", cf); mt_stat("recycled", rc); mt_stat("late_joins", stat_late_join); mt_stat("unreaped", unreaped);
  mt_stat("tryjoin_busy", stat_tryjoin_busy); mt_stat("tryjoin_ok", stat_tryjoin_ok); mt_stat("timed_timeout", stat_timed_to); mt_stat("timed_ok", stat_timed_ok);
  mt_stat("detach_running", stat_detach_running); mt_stat("detach_finished", stat_detach_finished); mt_stat("detach_attr", n_detattr);
  if (cf) mt_label("released_on_other_worker"); if (rc) mt_label("recycled"); if (stat_late_join) mt_label("late_join");
  if (stat_tryjoin_busy) mt_label("tryjoin_busy"); if (stat_tryjoin_ok) mt_label("tryjoin_ok"); if (stat_timed_to) mt_label("timedjoin_timeout"); if (stat_timed_ok) mt_label("timedjoin_ok");
  if (stat_detach_running) mt_label("detach_running"); if (stat_detach_finished) mt_label("detach_finished"); if (n_detattr) mt_label("detach_attribute");
  if (unreaped) mt_label("unreaped_left"); if (gW == 1) mt_label("W1");
  if (prop == 12) mt_nontrivial(cf > 0 || (stat_late_join > 0 && rc > 0));
  else mt_nontrivial(rc > 0 && (stat_tryjoin_busy + stat_timed_to + stat_detach_running + stat_detach_finished + n_detattr > 0 || gW == 1));
}

void scen_c12(mt_case * c) { run_history(c, 12); }
void scen_c13(mt_case * c) { run_history(c, 13); }
