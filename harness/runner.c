/* runner.c -- fork server executing one generated case per child process.
 *
 *   runner --server            requests on stdin (u32 length + case blob), replies on stdout
 *                              (u32 length + report text)
 *   runner --replay FILE [-t]  run the case in FILE once (forked), print the report
 *
 * case blob: "MVC1" u8 prop, u8 flags, u16 0, u32 seed, u32 cfg_len, u32 prog_len, u32 sched_len, bytes
 */
#include "common.h"
#include <sys/prctl.h>
#include <signal.h>
#include <signal.h>
#include <poll.h>
#include <fcntl.h>
#include <sys/wait.h>
#include <sys/time.h>
#include <sys/resource.h>

/* ---------------- report accumulation (child side) ---------------- */
static char desc_buf[32768]; static size_t desc_len;
static char labels[64][32]; static int n_labels;
static char stats_buf[2048]; static size_t stats_len;
static char known_buf[256];
static int nontrivial_flag;
static uint64_t case_hash = 1469598103934665603ULL;
static int want_text;

void mt_desc(const char * fmt, ...) {
  if (desc_len >= sizeof desc_buf - 2) return;
  va_list ap; va_start(ap, fmt);
  int n = vsnprintf(desc_buf + desc_len, sizeof desc_buf - desc_len, fmt, ap);
  va_end(ap);
  if (n > 0) { desc_len += (size_t)n; if (desc_len >= sizeof desc_buf) desc_len = sizeof desc_buf - 1; }
}
void mt_label(const char * l) {
  for (int i = 0; i < n_labels; i++) if (!strcmp(labels[i], l)) return;
  if (n_labels < 64) { strncpy(labels[n_labels], l, 31); labels[n_labels][31] = 0; n_labels++; }
}
void mt_nontrivial(int yes) { if (yes) nontrivial_flag = 1; }
void mt_hash(const void * p, size_t n) {
  const uint8_t * b = p;
  for (size_t i = 0; i < n; i++) case_hash = (case_hash ^ b[i]) * 1099511628211ULL;
}
void mt_hash_u(uint64_t v) { mt_hash(&v, sizeof v); }
void mt_stat(const char * key, long v) {
  if (stats_len < sizeof stats_buf - 64)
    stats_len += (size_t)snprintf(stats_buf + stats_len, sizeof stats_buf - stats_len, " %s=%ld", key, v);
}
void mt_known(const char * id) { if (!strstr(known_buf, id)) { size_t l = strlen(known_buf); snprintf(known_buf + l, sizeof known_buf - l, "%s%s", l ? "," : "", id); } }

static size_t emit_text(char * out, size_t n) {
  /* textual case: each line prefixed with "T " */
  const char * p = desc_buf;
  while (*p) {
    const char * e = strchr(p, '\n');
    size_t l = e ? (size_t)(e - p) : strlen(p);
    memcpy(out + n, "T ", 2); n += 2;
    memcpy(out + n, p, l); n += l;
    out[n++] = '\n';
    if (!e) break;
    p = e + 1;
  }
  return n;
}

/* called once the case is decoded and before it is executed: if the child then dies (crash,
   sanitizer abort, library exit()) the parent still knows which case it was */
static int early_flushed;
void mt_flush_early(void) {
  char * out = malloc(desc_len * 2 + 256);
  size_t n = (size_t)sprintf(out, "H %016llx\n", (unsigned long long)case_hash);
  n = emit_text(out, n);
  if (write(mv_result_fd, out, n) < 0) { }
  free(out);
  early_flushed = 1; desc_len = 0; desc_buf[0] = 0;
}

static void emit_report(int code, const char * msg) {
  (void)msg;
  char * out = malloc(desc_len * 2 + 8192);
  size_t n = 0;
  n += (size_t)sprintf(out + n, "H %016llx\nN %d\n", (unsigned long long)case_hash, nontrivial_flag);
  if (n_labels) {
    n += (size_t)sprintf(out + n, "C");
    for (int i = 0; i < n_labels; i++) n += (size_t)sprintf(out + n, " %s", labels[i]);
    n += (size_t)sprintf(out + n, "\n");
  }
  if (stats_len) n += (size_t)sprintf(out + n, "X%s\n", stats_buf);
  if (known_buf[0]) n += (size_t)sprintf(out + n, "K %s\n", known_buf);
  n = emit_text(out, n);
  if (write(mv_result_fd, out, n) < 0) { }
}

void mt_fail(const char * fmt, ...) {
  char msg[900];
  va_list ap; va_start(ap, fmt); vsnprintf(msg, sizeof msg, fmt, ap); va_end(ap);
  mv_verdict(MVV_ORACLE, "%s", msg);
}
void mt_reject(const char * why) { mv_verdict(MVV_REJECT, "%s", why); }
void mt_ok(void) { mv_verdict(MVV_OK, "ok"); }

/* ---------------- case decoding ---------------- */
static int parse_case(const uint8_t * b, size_t n, mt_case * c) {
  if (n < 24 || memcmp(b, "MVC1", 4)) return -1;
  c->prop = b[4]; c->flags = b[5] & 1; c->tier = (b[5] >> 1) & 1; c->gen = b[6];
  uint32_t seed, l1, l2, l3;
  memcpy(&seed, b + 8, 4); memcpy(&l1, b + 12, 4); memcpy(&l2, b + 16, 4); memcpy(&l3, b + 20, 4);
  if ((size_t)24 + l1 + l2 + l3 > n) return -1;
  c->seed = seed;
  c->cfg.p = b + 24; c->cfg.n = l1; c->cfg.pos = 0;
  c->prog.p = b + 24 + l1; c->prog.n = l2; c->prog.pos = 0;
  c->sched = b + 24 + l1 + l2; c->sched_len = l3;
  return 0;
}

static void child_run(const uint8_t * blob, size_t n, int resfd) {
  mt_case c;
  mv_result_fd = resfd;
  mv_set_report_fn(emit_report);
  if (parse_case(blob, n, &c)) mv_verdict(MVV_REJECT, "malformed case blob");
  want_text = c.flags & MTF_TEXT;
  mt_hash(c.sched, c.sched_len); mt_hash_u(c.seed);
  for (int i = 0; i < mt_n_scenarios; i++) {
    if (mt_scenarios[i].prop == c.prop) {
      mt_scenarios[i].run(&c);
      mt_ok();
    }
  }
  mv_verdict(MVV_REJECT, "no scenario for property %d", c.prop);
}

/* ---------------- parent side ---------------- */
static double now_s(void) { struct timespec t; clock_gettime(CLOCK_MONOTONIC, &t); return t.tv_sec + t.tv_nsec * 1e-9; }

static size_t run_case(const uint8_t * blob, size_t n, char * rep, size_t cap, double timeout_s) {
  int res[2], err[2];
  if (pipe(res) || pipe(err)) { perror("pipe"); exit(2); }
  fflush(stdout); fflush(stderr);
  pid_t pid = fork();
  if (pid < 0) { perror("fork"); exit(2); }
  if (pid == 0) {
    prctl(PR_SET_PDEATHSIG, SIGKILL);   /* no case process survives its server */
    close(res[0]); close(err[0]);
    dup2(err[1], 2); dup2(err[1], 1);
    close(0); open("/dev/null", O_RDONLY);
    struct rlimit rl = { 0, 0 }; setrlimit(RLIMIT_CORE, &rl);
    child_run(blob, n, res[1]);
    _exit(0);
  }
  close(res[1]); close(err[1]);
  size_t rn = 0; char ebuf[4096]; size_t en = 0;
  struct pollfd pf[2] = { { res[0], POLLIN, 0 }, { err[0], POLLIN, 0 } };
  int open_fds = 2, timed_out = 0;
  double t0 = now_s();
  while (open_fds > 0) {
    double left = timeout_s - (now_s() - t0);
    if (left <= 0) { timed_out = 1; break; }
    int r = poll(pf, 2, (int)(left * 1000) + 1);
    if (r < 0) { if (errno == EINTR) continue; break; }
    if (r == 0) { timed_out = 1; break; }
    for (int i = 0; i < 2; i++) {
      if (pf[i].fd < 0 || !(pf[i].revents & (POLLIN | POLLHUP | POLLERR))) continue;
      char tmp[4096];
      ssize_t k = read(pf[i].fd, tmp, sizeof tmp);
      if (k <= 0) { close(pf[i].fd); pf[i].fd = -1; open_fds--; continue; }
      if (i == 0) { size_t m = (size_t)k; if (rn + m > cap - 8192) m = cap - 8192 > rn ? cap - 8192 - rn : 0; memcpy(rep + rn, tmp, m); rn += m; }
      else {
        /* keep the tail of stderr */
        if ((size_t)k >= sizeof ebuf) { memcpy(ebuf, tmp + k - sizeof ebuf, sizeof ebuf); en = sizeof ebuf; }
        else { if (en + (size_t)k > sizeof ebuf) { size_t drop = en + (size_t)k - sizeof ebuf; memmove(ebuf, ebuf + drop, en - drop); en -= drop; } memcpy(ebuf + en, tmp, (size_t)k); en += (size_t)k; }
      }
    }
  }
  if (timed_out) kill(pid, SIGKILL);
  for (int i = 0; i < 2; i++) if (pf[i].fd >= 0) close(pf[i].fd);
  int st = 0; waitpid(pid, &st, 0);
  rep[rn] = 0;
  int has_v = (rn >= 2 && rep[0] == 'V' && rep[1] == ' ') || strstr(rep, "\nV ") != 0;
  if (!has_v) {
    /* no verdict line: crash, sanitizer abort, library exit(), or timeout */
    char head[512];
    int hl;
    if (timed_out) hl = snprintf(head, sizeof head, "V %d wall clock limit %.0fs\n", MVV_INCONCLUSIVE, timeout_s);
    else if (WIFSIGNALED(st)) hl = snprintf(head, sizeof head, "V %d crash signal=%d\n", MVV_CRASH, WTERMSIG(st));
    else hl = snprintf(head, sizeof head, "V %d abnormal exit status=%d\n", MVV_CRASH, WEXITSTATUS(st));
    memmove(rep + hl, rep, rn); memcpy(rep, head, (size_t)hl); rn += (size_t)hl;
  }
  if (en) {
    /* stderr tail as E lines */
    size_t i = 0;
    if (rn && rep[rn - 1] != '\n') rep[rn++] = '\n';
    while (i < en && rn < cap - 8) {
      rep[rn++] = 'E'; rep[rn++] = ' ';
      while (i < en && ebuf[i] != '\n' && rn < cap - 4) { char ch = ebuf[i++]; rep[rn++] = (ch >= 32 && ch < 127) ? ch : '?'; }
      if (i < en) i++;
      rep[rn++] = '\n';
    }
  }
  rep[rn] = 0;
  return rn;
}

static int read_full(int fd, void * p, size_t n) {
  char * b = p; size_t got = 0;
  while (got < n) { ssize_t k = read(fd, b + got, n - got); if (k <= 0) return -1; got += (size_t)k; }
  return 0;
}
static int write_full(int fd, const void * p, size_t n) {
  const char * b = p; size_t put = 0;
  while (put < n) { ssize_t k = write(fd, b + put, n - put); if (k <= 0) return -1; put += (size_t)k; }
  return 0;
}

int main(int argc, char ** argv) {
  double timeout_s = 20;
  const char * te = getenv("MT_CASE_TIMEOUT"); if (te) timeout_s = atof(te);
  signal(SIGPIPE, SIG_IGN);
  static char rep[1 << 17];
  if (argc >= 2 && !strcmp(argv[1], "--server")) {
    static uint8_t blob[1 << 20];
    for (;;) {
      uint32_t len;
      if (read_full(0, &len, 4)) break;
      if (len > sizeof blob) { fprintf(stderr, "runner: blob too large\n"); return 2; }
      if (read_full(0, blob, len)) break;
      size_t rn = run_case(blob, len, rep, sizeof rep, timeout_s);
      uint32_t rl = (uint32_t)rn;
      if (write_full(1, &rl, 4) || write_full(1, rep, rn)) break;
    }
    return 0;
  }
  if (argc >= 3 && !strcmp(argv[1], "--replay")) {
    FILE * f = fopen(argv[2], "rb"); if (!f) { perror(argv[2]); return 2; }
    static uint8_t blob[1 << 20]; size_t n = fread(blob, 1, sizeof blob, f); fclose(f);
    if (argc >= 4 && !strcmp(argv[3], "-t") && n > 5) blob[5] |= 1;
    size_t rn = run_case(blob, n, rep, sizeof rep, timeout_s);
    fwrite(rep, 1, rn, stdout);
    int code = -1; { const char * v = (rep[0] == 'V' && rep[1] == ' ') ? rep : strstr(rep, "\nV "); if (v) sscanf(v + (v == rep ? 0 : 1), "V %d", &code); }
    return (code == MVV_OK || code == MVV_REJECT || code == MVV_INCONCLUSIVE) ? 0 : 1;
  }
  fprintf(stderr, "usage: runner --server | --replay FILE [-t]\n");
  return 2;
}
