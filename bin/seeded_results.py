#!/usr/bin/env python3
"""seeded/RESULTS.md from seeded/<id>/meta.json (one row per independently written breaking change)."""
import json, glob, os
V = os.path.dirname(os.path.dirname(os.path.abspath(__file__)))
rows = []
for f in sorted(glob.glob(os.path.join(V, 'seeded', '*', 'meta.json'))):
    d = json.load(open(f)); rows.append(d)
out = ['# Independently seeded changes and what the checks say about them', '',
       'Every row is a source change written by a fresh sub-agent that was given only the text of the property and a',
       'scratch worktree. Each was re-confirmed here before it was kept: the patch applies to /repo HEAD, the 257 tests',
       'pass with it, the demonstration fails with it and passes without it (`bin/seed_eval.sh <id>`).',
       'The check column is the quick command of that property run on a scratch worktree with the patch',
       '(`bin/with_patch.sh seeded/<id>/patch.diff bin/check <id>`; the same as `git -C /repo apply`, check, `git -C /repo checkout -- .`).', '',
       '| property | change (see patch.diff / notes.md) | needs | quick check | first violation | history |', '|---|---|---|---|---|---|']
for d in rows:
    pid = d['property']
    notes = os.path.join(V, 'seeded', os.path.basename(os.path.dirname(d.get('_path', ''))) or pid, 'notes.md')
    patch = open(os.path.join(V, 'seeded', d.get('dir', pid), 'patch.diff')).read()
    files = sorted({l[6:] for l in patch.splitlines() if l.startswith('+++ b/')})
    esc = lambda s: (s or '').replace('|', '\\|').replace('\n', ' ')
    out.append('| %s | %s | %s | **%s** | %s | %s |' % (d.get('dir', pid), esc(d.get('summary') or ', '.join(files)), esc(d.get('what_it_needs_to_manifest', '')),
               d['check_result'], esc(d.get('first_violation', ''))[:160], esc(d.get('history', 'caught by the check as it stood') + ((' Reported by another property\'s check: ' + d['caught_by_other_check']) if d.get('caught_by_other_check') else ''))))
n = len(rows); c = sum(1 for d in rows if d['check_result'] == 'CAUGHT'); first = sum(1 for d in rows if d.get('initially', d['check_result']) == 'CAUGHT')
out += ['', '%d changes kept; %d reported by the quick check today; %d of those were reported by the check as it stood when the change arrived, the others only after the generator / oracle extension described in the history column.' % (n, c, first), '']
open(os.path.join(V, 'seeded', 'RESULTS.md'), 'w').write('\n'.join(out))
print('\n'.join(out[-3:]))
