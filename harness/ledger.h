/* ledger.h -- resource ledger fed by the MYTH_VERIF_ALLOC/FREE hooks */
#ifndef LEDGER_H_
#define LEDGER_H_
#include <stddef.h>
#include <stdint.h>

typedef struct lthread {
  void * desc;             /* record address while owned */
  char * lo, * hi;         /* stack interval while owned */
  int desc_state, stack_state;     /* 0 none, 1 owned, 2 free */
  int alloc_rank, desc_free_rank, stack_free_rank;
  int desc_frees, stack_frees;
  /* model side, set by the scenario */
  void * user;             /* scenario's node */
  volatile int ended;      /* body finished */
  volatile int reap_started; /* a join/tryjoin/timedjoin/detach call on it has been entered, or created detached */
} lthread_t;

void ledger_install(size_t default_stack_size);
void ledger_set_poison(int on);
/* the calling thread's own ledger entry (by myth_self()) */
lthread_t * ledger_self(void * self_desc);
lthread_t * ledger_of_desc(void * desc);   /* entry currently owning this record, or NULL */
void ledger_counts(long * fresh_desc, long * fresh_stack, long * max_owned_desc, long * max_owned_stack,
                   long * cross_worker_frees, long * recycled);
int ledger_nthreads(void);
lthread_t * ledger_thread(int i);
#endif
