#!/bin/bash
# setup.sh -- MANIFEST.setup_cmd: build the repo-independent parts of the framework
# (rapidcheck drivers).  Everything that depends on /repo is rebuilt by the checks themselves.
set -e
VERIF=$(cd "$(dirname "$0")/.." && pwd)
mkdir -p $VERIF/build/drivers $VERIF/evidence $VERIF/found
for src in $VERIF/drivers/*.cc; do
  b=$(basename $src .cc)
  out=$VERIF/build/drivers/$b
  if [ ! -x $out ] || [ $src -nt $out ]; then
    g++ -std=gnu++17 -O1 -g -o $out $src -lrapidcheck &
  fi
done
wait
for src in $VERIF/drivers/*.cc; do
  b=$(basename $src .cc)
  [ -x $VERIF/build/drivers/$b ] || { echo "setup: failed to build $b" >&2; exit 1; }
done
echo "setup ok"
