/* C05 -- condition variables: atomic release-and-wait, signal / broadcast reach waiters,
 * a signal with no waiter has no effect, wait returns holding the mutex.
 *
 * Programs (deadlock-free and determinate by construction, always `while(!pred) wait`):
 *   0 bounded buffer  (P producers, C consumers, capacity, two condvars+signal or one+broadcast)
 *   1 gate            (k waiters, one opener: one broadcast or k signals)
 *   2 turnstile       (token passed round-robin; one condvar+broadcast or per-thread condvar+signal)
 * Oracle: occupancy witness of the mutex; wake credits (a wait may only return if a signal /
 * broadcast issued under the mutex while it was waiting paid for it); multiset of consumed
 * items; completion (a missed wake-up shows as DEADLOCK / STUCK from the engine).
 */
#include "scen_util.h"

typedef struct {
  myth_cond_t cv;
  int sleeping;      /* waiters that entered wait and have not been credited a wake */
  long credits, returns, nowaiter_signals;
} cvm_t;

static myth_mutex_t g_m;
static witness_t g_w;
static cvm_t g_cv[8];
static int g_migrated, g_blocked;
static int g_unlocked;     /* 1: signal / broadcast are issued after the mutex has been released (lock; change predicate; unlock; signal) */
static long g_unlocked_notifies;

#define RC0(call) do { int rc_ = (call); if (rc_ != 0) mt_fail("%s returned %d (documented: zero if it succeeds)", #call, rc_); } while (0)
static void m_lock(void) { RC0(myth_mutex_lock(&g_m)); wit_enter(&g_w, "lock"); }
static void m_unlock(void) { wit_leave(&g_w, "unlock"); RC0(myth_mutex_unlock(&g_m)); }

static void cv_wait(cvm_t * c) {
  mv_progress();   /* a thread that got as far as waiting has made progress (matters for crowds: hundreds of waiters start and block one after the other) */
  c->sleeping++;
  wit_leave(&g_w, "cond_wait(enter)");
  int w0 = myth_get_worker_num();
  unsigned long b0 = HIT(MVP_BLOCK_CB_B);
  RC0(myth_cond_wait(&c->cv, &g_m));
  wit_enter(&g_w, "cond_wait(return)");
  if (myth_get_worker_num() != w0) g_migrated++;
  if (HIT(MVP_BLOCK_CB_B) != b0) g_blocked++;
  c->returns++;
  if (!g_unlocked && c->returns > c->credits)
    mt_fail("cond_wait returned without a signal/broadcast issued while it was waiting (returns=%ld credits=%ld)",
            c->returns, c->credits);
  mv_progress();
}
static void cv_signal(cvm_t * c) {
  if (c->sleeping > 0) { c->sleeping--; c->credits++; } else c->nowaiter_signals++;
  RC0(myth_cond_signal(&c->cv));
  mv_progress();
}
/* the unlocked idiom: the caller has already released the mutex; the set of waiters is not stable at
   this instant, so no wake credit is computed -- a lost wake-up shows as a hang, a duplicate one as
   a surplus return that the predicate loop absorbs */
static void cv_signal_unlocked(cvm_t * c) { g_unlocked_notifies++; RC0(myth_cond_signal(&c->cv)); mv_progress(); }
static void cv_broadcast_unlocked(cvm_t * c) { g_unlocked_notifies++; RC0(myth_cond_broadcast(&c->cv)); mv_progress(); }
static void cv_broadcast(cvm_t * c) {
  if (c->sleeping == 0) c->nowaiter_signals++;
  c->credits += c->sleeping; c->sleeping = 0;
  RC0(myth_cond_broadcast(&c->cv));
  mv_progress();
}

/* ---------------- pattern 0: bounded buffer ---------------- */
static struct {
  int P, C, cap, one_cv;
  int items[8];       /* per producer */
  int quota[8];       /* per consumer */
  int yp[8], yc[8];   /* yields between operations */
  int buf[8], count, head, tail;
  int consumed[8 * 64];
} bb;

static void * bb_producer(void * a) {
  int me = (int)(intptr_t)a;
  cvm_t * notfull = &g_cv[0], * notempty = bb.one_cv ? &g_cv[0] : &g_cv[1];
  for (int i = 0; i < bb.items[me]; i++) {
    m_lock();
    while (bb.count == bb.cap) cv_wait(notfull);
    bb.buf[bb.tail] = me * 64 + i; bb.tail = (bb.tail + 1) % bb.cap; bb.count++;
    if (!g_unlocked) { if (bb.one_cv) cv_broadcast(notempty); else cv_signal(notempty); }
    m_unlock();
    if (g_unlocked) { if (bb.one_cv) cv_broadcast_unlocked(notempty); else cv_signal_unlocked(notempty); }
    do_yields(bb.yp[me]);
    op_done();
  }
  return 0;
}
static void * bb_consumer(void * a) {
  int me = (int)(intptr_t)a;
  cvm_t * notfull = &g_cv[0], * notempty = bb.one_cv ? &g_cv[0] : &g_cv[1];
  for (int i = 0; i < bb.quota[me]; i++) {
    m_lock();
    while (bb.count == 0) cv_wait(notempty);
    int v = bb.buf[bb.head]; bb.head = (bb.head + 1) % bb.cap; bb.count--;
    if (v < 0 || v >= 8 * 64) mt_fail("consumed an item that was never produced: %d", v);
    bb.consumed[v]++;
    if (!g_unlocked) { if (bb.one_cv) cv_broadcast(notfull); else cv_signal(notfull); }
    m_unlock();
    if (g_unlocked) { if (bb.one_cv) cv_broadcast_unlocked(notfull); else cv_signal_unlocked(notfull); }
    do_yields(bb.yc[me]);
    op_done();
  }
  return 0;
}

/* ---------------- pattern 1: gate ---------------- */
static struct { int k, use_broadcast, delay, open, passed, opener_pos, tokens; int yw[16], ys[16]; } gt;
static void * gate_waiter(void * a) {
  int me = (int)(intptr_t)a;
  do_yields(gt.yw[me % 16]);
  m_lock();
  while (!gt.open) cv_wait(&g_cv[0]);
  gt.passed++;
  m_unlock();
  op_done();
  return 0;
}
/* token gate (unlocked idiom): k waiters each take one token, k signallers each add one and signal after unlocking */
static void * token_waiter(void * a) {
  int me = (int)(intptr_t)a;
  do_yields(gt.yw[me]);
  m_lock();
  while (gt.tokens == 0) cv_wait(&g_cv[0]);
  gt.tokens--; gt.passed++;
  m_unlock();
  op_done();
  return 0;
}
static void * token_signaller(void * a) {
  int me = (int)(intptr_t)a;
  do_yields(gt.ys[me]);
  m_lock(); gt.tokens++; m_unlock();
  cv_signal_unlocked(&g_cv[0]);
  op_done();
  return 0;
}
static void * gate_opener(void * a) {
  (void)a;
  do_yields(gt.delay);
  m_lock();
  gt.open = 1;
  if (!g_unlocked) { if (gt.use_broadcast) cv_broadcast(&g_cv[0]); else for (int i = 0; i < gt.k; i++) cv_signal(&g_cv[0]); }
  m_unlock();
  if (g_unlocked) { if (gt.use_broadcast) cv_broadcast_unlocked(&g_cv[0]); else for (int i = 0; i < gt.k; i++) cv_signal_unlocked(&g_cv[0]); }
  op_done();
  return 0;
}

/* ---------------- pattern 2: turnstile ---------------- */
static struct { int n, rounds, per_thread_cv, turn; long passes; int yt[8]; } ts;
static void * ts_thread(void * a) {
  int me = (int)(intptr_t)a;
  for (int r = 0; r < ts.rounds; r++) {
    m_lock();
    while (ts.turn != me) cv_wait(ts.per_thread_cv ? &g_cv[me] : &g_cv[0]);
    ts.passes++;
    ts.turn = (me + 1) % ts.n;
    if (!g_unlocked) { if (ts.per_thread_cv) cv_signal(&g_cv[ts.turn]); else cv_broadcast(&g_cv[0]); }
    m_unlock();
    if (g_unlocked) { if (ts.per_thread_cv) cv_signal_unlocked(&g_cv[ts.turn]); else cv_broadcast_unlocked(&g_cv[0]); }
    do_yields(ts.yt[me]);
    op_done();
  }
  return 0;
}

void scen_c05(mt_case * c) {
  mt_engine_cfg e;
  rd_t * r = &c->prog;
  mt_decode_engine(c, &e, 8);
  int pattern = (int)rd_below(r, 3);
  int pre_sig = (int)rd_below(r, 3), pre_bc = (int)rd_below(r, 2);
  unsigned ub = rd_u8(r);
  g_unlocked = (ub % 3) == 0;
  int token_gate = g_unlocked && (ub & 0x40);
  int max_items = c->tier ? 40 : 8;
  static myth_thread_t th[1100]; int nth = 0; int big_gate = 0;
  int ncv = 1;

  if (pattern == 0) {
    bb.P = rd_range(r, 1, 4); bb.C = rd_range(r, 1, 4); bb.cap = rd_range(r, 1, 4); bb.one_cv = (int)rd_below(r, 2);
    int total = 0;
    for (int i = 0; i < bb.P; i++) { bb.items[i] = rd_range(r, 1, max_items); total += bb.items[i]; bb.yp[i] = (int)rd_below(r, 3); }
    int left = total;
    for (int j = 0; j < bb.C; j++) {
      int q = (j == bb.C - 1) ? left : (int)rd_below(r, (unsigned)left + 1);
      bb.quota[j] = q; left -= q; bb.yc[j] = (int)rd_below(r, 3);
    }
    ncv = bb.one_cv ? 1 : 2;
    mt_desc("C05 bounded-buffer P=%d C=%d cap=%d %s\n", bb.P, bb.C, bb.cap, bb.one_cv ? "one condvar + broadcast" : "two condvars + signal");
    mt_desc(" items per producer:"); for (int i = 0; i < bb.P; i++) mt_desc(" %d(y%d)", bb.items[i], bb.yp[i]);
    mt_desc("\n quota per consumer:"); for (int j = 0; j < bb.C; j++) mt_desc(" %d(y%d)", bb.quota[j], bb.yc[j]);
    mt_desc("\n");
    mt_label(bb.one_cv ? "bb_broadcast" : "bb_signal");
  } else if (pattern == 1) {
    gt.k = rd_range(r, 1, c->tier ? 16 : 8); gt.use_broadcast = (int)rd_below(r, 2); gt.delay = (int)rd_below(r, 6);
    for (int i = 0; i < gt.k; i++) { gt.yw[i] = (int)rd_below(r, 4); gt.ys[i] = token_gate ? (int)rd_below(r, 4) : 0; }
    gt.opener_pos = (int)rd_below(r, (unsigned)gt.k + 1);
    if (!token_gate && (ub & 0x38) == 0x38) {   /* a crowd: many waiters on one condition variable, around powers of two */
      big_gate = 1; gt.k = (int[]){ 255, 256, 257, 300, 513, 1025 }[rd_below(r, 6)];
      if (rd_below(r, 2)) gt.opener_pos = gt.k; else gt.opener_pos = (int)rd_below(r, (unsigned)gt.k + 1);
    }
    mt_desc("C05 gate waiters=%d opener: %s after %d yields; waiter delays:", gt.k, gt.use_broadcast ? "1 broadcast" : "k signals", gt.delay);
    for (int i = 0; i < gt.k && i < 16; i++) mt_desc(" %d", gt.yw[i]);
    mt_desc("\n");
    mt_label(gt.use_broadcast ? "gate_broadcast" : "gate_signal");
  } else {
    ts.n = rd_range(r, 2, 6); ts.rounds = rd_range(r, 1, c->tier ? 12 : 5); ts.per_thread_cv = (int)rd_below(r, 2); ts.turn = 0;
    for (int i = 0; i < ts.n; i++) ts.yt[i] = (int)rd_below(r, 3);
    ncv = ts.per_thread_cv ? ts.n : 1;
    mt_desc("C05 turnstile n=%d rounds=%d %s\n", ts.n, ts.rounds, ts.per_thread_cv ? "per-thread condvar + signal" : "one condvar + broadcast");
    mt_label(ts.per_thread_cv ? "ts_signal" : "ts_broadcast");
  }
  mt_desc(" prefix: %d signals and %d broadcasts with no waiter; notifications issued %s%s\n", pre_sig, pre_bc, g_unlocked ? "after releasing the mutex" : "while holding the mutex", (pattern == 1 && token_gate) ? "; token gate: k signallers, one token and one signal each" : "");
  if (g_unlocked) mt_label("notify_after_unlock");
  mt_hash(c->prog.p, c->prog.pos);

  mt_allow_prelude = 1;
  mt_lib_start(c, &e, big_gate ? 32768 : 0);
  if (big_gate) mt_label("gate_crowd");
  MT_DIRTY(g_m); Z0(myth_mutex_init(&g_m, 0));
  for (int i = 0; i < ncv; i++) { MT_DIRTY(g_cv[i].cv); Z0(myth_cond_init(&g_cv[i].cv, 0)); }

  /* signals with no waiter must have no effect */
  m_lock();
  for (int i = 0; i < pre_sig; i++) cv_signal(&g_cv[i % ncv]);
  for (int i = 0; i < pre_bc; i++) cv_broadcast(&g_cv[i % ncv]);
  m_unlock();

  if (pattern == 0) {
    for (int j = 0; j < bb.C; j++) Z0(mt_create(&th[nth++], bb_consumer, (void *)(intptr_t)j));
    for (int i = 0; i < bb.P; i++) Z0(mt_create(&th[nth++], bb_producer, (void *)(intptr_t)i));
  } else if (pattern == 1 && token_gate) {
    for (int i = 0; i < gt.k; i++) {
      if ((gt.opener_pos + i) & 1) { Z0(mt_create(&th[nth++], token_signaller, (void *)(intptr_t)i)); mt_create(&th[nth++], token_waiter, (void *)(intptr_t)i); }
      else { Z0(mt_create(&th[nth++], token_waiter, (void *)(intptr_t)i)); mt_create(&th[nth++], token_signaller, (void *)(intptr_t)i); }
    }
  } else if (pattern == 1) {
    int opener_pos = gt.opener_pos;
    for (int i = 0; i < gt.k; i++) {
      if (i == opener_pos) Z0(mt_create(&th[nth++], gate_opener, 0));
      mt_create(&th[nth++], gate_waiter, (void *)(intptr_t)i);
    }
    if (opener_pos == gt.k) Z0(mt_create(&th[nth++], gate_opener, 0));
  } else {
    for (int i = ts.n - 1; i >= 0; i--) Z0(mt_create(&th[nth++], ts_thread, (void *)(intptr_t)i));
  }
  for (int i = 0; i < nth; i++) { Z0(myth_join(th[i], 0)); mv_progress(); }
  mt_lib_finish();

  /* final oracle */
  if (g_w.in_cs != 0) mt_fail("mutex occupancy %d at the end", g_w.in_cs);
  if (pattern == 0) {
    for (int i = 0; i < bb.P; i++)
      for (int k = 0; k < 64; k++) {
        int want = k < bb.items[i] ? 1 : 0;
        if (bb.consumed[i * 64 + k] != want) mt_fail("item %d of producer %d consumed %d times (expected %d)", k, i, bb.consumed[i * 64 + k], want);
      }
    if (bb.count != 0) mt_fail("buffer not empty at the end: %d", bb.count);
  } else if (pattern == 1) {
    if (gt.passed != gt.k) mt_fail("gate: %d of %d waiters passed", gt.passed, gt.k);
    if (token_gate && gt.tokens != 0) mt_fail("token gate: %d tokens left", gt.tokens);
  } else {
    if (ts.passes != (long)ts.n * ts.rounds) mt_fail("turnstile: %ld passes, expected %d", ts.passes, ts.n * ts.rounds);
  }
  long waits = 0, nws = 0;
  for (int i = 0; i < ncv; i++) { waits += g_cv[i].returns; nws += g_cv[i].nowaiter_signals; }
  long sw_enq = (long)(SWHIT(MVP_BLOCK_CB_A) + SWHIT(MVP_BLOCK_CB_B));
  mt_stat("waits", waits); mt_stat("blocked", g_blocked); mt_stat("migrated", g_migrated);
  mt_stat("switch_at_enqueue_unlock", sw_enq); mt_stat("nowaiter_signals", nws);
  if (waits > 0) mt_label("waited");
  if (g_migrated) mt_label("resumed_on_other_worker");
  if (sw_enq) mt_label("switch_in_enqueue_unlock_window");
  if (nws) mt_label("signal_without_waiter");
  /* non-trivial: a real wait happened and either the schedule switched inside the
     enqueue/unlock window of a blocking call or a waiter migrated */
  mt_nontrivial(waits > 0 && (sw_enq > 0 || g_migrated > 0));
}
