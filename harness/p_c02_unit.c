/* C02 (1) -- work-stealing queue unit harness.
 *
 * myth_wsqueue_func.h is compiled straight from the tree into this file with a tiny capacity
 * (INITIAL_QUEUE_SIZE 16), so that both storage boundaries and re-centring are reached by short
 * histories.  Participants are plain pthreads driven by the token scheduler: one owner
 * (push / pop / put / drain) and 1..3 thieves (take / trypass / peek).
 *
 * x86-TSO: free interleaving of whole accesses is sequential consistency.  The one store->load
 * ordering the queue relies on is the top/base handshake, so the harness may *buffer* the
 * owner's `q->top = top` in pop and the thief's `q->base = b+1` in take: the old value is written
 * back at the point right after the store, and the new value is made visible when that
 * participant executes a full fence or a locked instruction (fence / spin-trylock hooks), when
 * the schedule says so at a later point, or at the end of the operation.  With the fence in
 * place this is an x86-TSO execution; without it the stale value survives the following load.
 *
 * Oracle (history invariant): every inserted tag is returned by at most one remove; after a
 * single-threaded drain the multiset of returned tags equals the inserted one; a remove that
 * returns NULL must have overlapped an instant at which the queue could have been empty
 * (inserts completed - removes completed - other removes in flight <= 0); peek returns NULL or a
 * tag that was in the queue during the call; top-base equals the model size at quiescence.
 */
#define INITIAL_QUEUE_SIZE 16
#include "common.h"
#include <pthread.h>
struct myth_thread { long tag; };
#include "myth_wsqueue_func.h"
#include "myth_verif.h"

enum { Q_PUSH, Q_POP, Q_PUT, Q_DRAIN, Q_TAKE, Q_TRYPASS, Q_PEEK };
static const char * qname[] = { "push", "pop", "put", "drain", "take", "trypass", "peek" };
#define MAXQOPS 24
#define MAXTAGS 64
static struct {
  int nth; int nops[4]; int op[4][MAXQOPS];
  int pre_push, pre_put, tso;
} Q;
static myth_thread_queue q;
static struct myth_thread items[MAXTAGS];
/* model */
static int ins_started[MAXTAGS], ins_done[MAXTAGS], rem_count[MAXTAGS], rem_done_at[MAXTAGS]; static long rem_done_seq[MAXTAGS];
static long n_ins_done, n_rem_done, n_rem_inflight, seq;
static int next_tag;
typedef struct { int active; long minlb; long start_seq; } remop_t;
static remop_t remop[4];
static long overlaps_small, ops_done, n_null, n_peek;
static int active_ops;

static long lb_for(int self) { return n_ins_done - n_rem_done - (n_rem_inflight - (remop[self].active ? 1 : 0)); }
static void refresh_minlb(void) { for (int i = 0; i < 4; i++) if (remop[i].active) { long lb = lb_for(i); if (lb < remop[i].minlb) remop[i].minlb = lb; } }

/* ---- TSO store buffer emulation ---- */
typedef struct { volatile int * addr; int newv, oldv; int valid; } sb_t;
static sb_t sb[4]; static int snap_top[4], snap_base[4]; static long tso_buffered, tso_drains_late;
static uint64_t tso_rng;
static unsigned tso_rand(void) { tso_rng = tso_rng * 6364136223846793005ULL + 1442695040888963407ULL; return (unsigned)(tso_rng >> 40); }
/* drain: the buffered store becomes visible.  Stores leave the buffer in program order, so a
   buffered store that has been followed by another store of the same participant to the same
   location must not overwrite it.  The only such later store is the `q->base = b` of take's
   failure path (top is re-written only after a locked instruction, which drains first).  Both
   paths of take execute a fence right after the top test; the success path then reaches the
   MVP_Q_TAKE_D point, the failure path (after its restoring store) the unlock point.  So a fence
   seen after the top test only marks the entry; the next point of the same participant decides
   (nobody else runs in between, so deferring the write is not observable). */
static int seen_take_d[4], seen_take_c[4], pending_fence[4];
static void tso_drain_ex(int me, int at_point) {
  if (me < 0 || me >= 4 || !sb[me].valid) return;
  if (!at_point && sb[me].addr == &q.base && seen_take_c[me] && !seen_take_d[me] && !pending_fence[me]) { pending_fence[me] = 1; return; }
  *sb[me].addr = sb[me].newv;
  sb[me].valid = 0; pending_fence[me] = 0;
}
static void tso_resolve_pending(int me, int id) {
  if (!pending_fence[me]) return;
  pending_fence[me] = 0;
  if (id == MVP_Q_TAKE_D) *sb[me].addr = sb[me].newv;     /* success path: no later store */
  sb[me].valid = 0;                                        /* failure path: superseded by `q->base = b` */
}
static void tso_drain(int me) { if (me >= 0 && me < 4 && pending_fence[me]) tso_resolve_pending(me, -1); else tso_drain_ex(me, 0); }
static void tso_point(int id, int me) {
  if (me < 0 || me >= 4) return;
  if (!Q.tso) return;
  tso_resolve_pending(me, id);
  switch (id) {
  case MVP_Q_POP_A: snap_top[me] = q.top; break;
  case MVP_Q_TAKE_A: snap_base[me] = q.base; seen_take_d[me] = 0; seen_take_c[me] = 0; break;
  case MVP_Q_TAKE_C: seen_take_c[me] = 1; if (sb[me].valid && (tso_rand() & 3) == 0) { tso_drain_ex(me, 1); tso_drains_late++; } break;
  case MVP_Q_TAKE_D: seen_take_d[me] = 1; tso_drain_ex(me, 1); break;
  case MVP_Q_POP_B:
    if (tso_rand() % 100 < (unsigned)Q.tso) { sb[me].addr = &q.top; sb[me].newv = q.top; sb[me].oldv = snap_top[me]; sb[me].valid = 1; q.top = snap_top[me]; tso_buffered++; }
    break;
  case MVP_Q_TAKE_B:
    if (tso_rand() % 100 < (unsigned)Q.tso) { sb[me].addr = &q.base; sb[me].newv = q.base; sb[me].oldv = snap_base[me]; sb[me].valid = 1; q.base = snap_base[me]; tso_buffered++; }
    break;
  case MVP_SPIN_TRY:              /* a locked instruction follows: the store buffer is drained by it */
    tso_drain_ex(me, 1); break;
  default:
    /* any later point: the buffer may drain spontaneously */
    if (sb[me].valid && (tso_rand() & 3) == 0) { tso_drain_ex(me, 1); tso_drains_late++; }
  }
}
static void tso_fence(int kind, int me) { if (kind == MVF_FULL) tso_drain(me); }

static struct myth_thread * new_item(void) { if (next_tag >= MAXTAGS) mt_reject("too many tags"); struct myth_thread * t = &items[next_tag]; t->tag = next_tag++; return t; }
static void note_overlap(void) { if (active_ops > 0 && n_ins_done - n_rem_done <= 2) overlaps_small++; }

static void do_insert(int me, int kind) {
  struct myth_thread * t = new_item();
  ins_started[t->tag] = 1; note_overlap(); active_ops++;
  int ok = 1;
  if (kind == Q_PUSH) myth_queue_push(&q, t);
  else if (kind == Q_PUT) myth_queue_put(&q, t);
  else ok = myth_queue_trypass(&q, t);
  tso_drain(me);
  active_ops--;
  if (ok) { ins_done[t->tag] = 1; n_ins_done++; } else ins_started[t->tag] = 0;
  seq++;
}
static void got(struct myth_thread * t, const char * how) {
  if (t < items || t >= items + MAXTAGS) mt_fail("%s returned a pointer that was never inserted: %p", how, (void *)t);
  int tag = (int)(t - items);
  if (!ins_started[tag]) mt_fail("%s returned tag %d which was not inserted", how, tag);
  if (++rem_count[tag] > 1) mt_fail("tag %d returned twice (second time by %s): a runnable thread would be resumed by two workers", tag, how);
  rem_done_seq[tag] = seq;
}
static struct myth_thread * do_remove(int me, int kind) {
  remop[me].active = 1; n_rem_inflight++; remop[me].minlb = lb_for(me); remop[me].start_seq = seq;
  refresh_minlb(); note_overlap(); active_ops++;
  struct myth_thread * t = (kind == Q_POP) ? myth_queue_pop(&q) : myth_queue_take(&q);
  tso_drain(me);
  active_ops--;
  if (t) { got(t, qname[kind]); n_rem_done++; }
  else {
    n_null++;
    if (remop[me].minlb >= 1) mt_fail("%s returned NULL although the queue held at least %ld element(s) that no other operation could have removed during the whole call", qname[kind], remop[me].minlb);
  }
  n_rem_inflight--; remop[me].active = 0; seq++;
  return t;
}
static void do_peek(int me) {
  long s0 = seq; (void)me;
  struct myth_thread * t = myth_queue_peek(&q);
  n_peek++;
  if (t) {
    if (t < items || t >= items + MAXTAGS) mt_fail("peek returned a pointer that was never inserted");
    int tag = (int)(t - items);
    if (!ins_started[tag]) mt_fail("peek returned tag %d which was not inserted", tag);
    if (rem_count[tag] && rem_done_seq[tag] < s0) mt_fail("peek returned tag %d which had been removed before the call started", tag);
  }
  seq++;
}

static void * participant(void * a) {
  int me = (int)(intptr_t)a;
  mv_unit_register(me);
  for (int i = 0; i < Q.nops[me]; i++) {
    int k = Q.op[me][i];
    switch (k) {
    case Q_PUSH: case Q_PUT: case Q_TRYPASS: do_insert(me, k); break;
    case Q_POP: case Q_TAKE: do_remove(me, k); break;
    case Q_DRAIN: while (do_remove(me, Q_POP)) { } break;
    case Q_PEEK: do_peek(me); break;
    }
    ops_done++;
    mv_progress();
    mv_point(1000);
  }
  mv_unit_exit(me);
  return 0;
}

void scen_c02_unit(mt_case * c) {
  rd_t * r = &c->prog;
  unsigned b0 = rd_u8(&c->cfg), b1 = rd_u8(&c->cfg), b2 = rd_u8(&c->cfg);
  static const int tails[8] = { 0, 4, 16, 48, 96, 160, 255, 255 };
  Q.nth = 2 + (int)(b0 % 3);
  Q.tso = (b2 & 1) ? (int[]){ 30, 60, 100, 100 }[(b2 >> 1) & 3] : 0;
  Q.pre_push = (int)rd_below(r, 9); Q.pre_put = (int)rd_below(r, 9);
  if (Q.pre_push + Q.pre_put > 10) Q.pre_put = 10 - Q.pre_push;
  int maxops = c->tier ? MAXQOPS : 12;
  int owner_ins = 0, thief_ins = 0;
  mt_desc("C02 queue unit: capacity 16, prefill %d pushes + %d puts, %d participants, TSO buffering %d%%\n", Q.pre_push, Q.pre_put, Q.nth, Q.tso);
  for (int t = 0; t < Q.nth; t++) {
    Q.nops[t] = rd_range(r, 1, maxops);
    mt_desc(" %s:", t == 0 ? "owner" : "thief");
    for (int i = 0; i < Q.nops[t]; i++) {
      unsigned x = rd_u8(r); int k;
      if (t == 0) {
        k = (int[]){ Q_PUSH, Q_POP, Q_PUT, Q_POP, Q_PUSH, Q_DRAIN, Q_POP, Q_PUSH }[x & 7];
        if ((k == Q_PUSH || k == Q_PUT) && Q.pre_push + Q.pre_put + owner_ins >= 10) k = Q_DRAIN;
        if (k == Q_DRAIN) owner_ins = -(Q.pre_push + Q.pre_put);      /* everything inserted so far is gone or being taken */
        if (k == Q_PUSH || k == Q_PUT) owner_ins++;
      } else {
        k = (int[]){ Q_TAKE, Q_TAKE, Q_TRYPASS, Q_PEEK, Q_TAKE, Q_TAKE, Q_PEEK, Q_TRYPASS }[x & 7];
        if (k == Q_TRYPASS && thief_ins >= 4) k = Q_TAKE;
        if (k == Q_TRYPASS) thief_ins++;
      }
      Q.op[t][i] = k;
      mt_desc(" %s", qname[k]);
    }
    mt_desc("\n");
  }
  mt_hash(c->prog.p, c->prog.pos); mt_hash_u(b0 % 3); mt_hash_u((uint64_t)Q.tso);
  mt_desc("engine: unit participants=%d tail_preempt=%d/256 sched_bytes=%zu seed=%u\n", Q.nth, tails[b1 & 7], c->sched_len, c->seed);
  mt_flush_early();
  myth_queue_init(&q);
  for (int i = 0; i < Q.pre_push; i++) { struct myth_thread * t = new_item(); ins_started[t->tag] = ins_done[t->tag] = 1; n_ins_done++; myth_queue_push(&q, t); }
  for (int i = 0; i < Q.pre_put; i++) { struct myth_thread * t = new_item(); ins_started[t->tag] = ins_done[t->tag] = 1; n_ins_done++; myth_queue_put(&q, t); }
  mv_config cfg; memset(&cfg, 0, sizeof cfg);
  cfg.mode = MV_CONTROLLED; cfg.nparts = Q.nth; cfg.sched = c->sched; cfg.sched_len = c->sched_len; cfg.seed = c->seed;
  cfg.tail_preempt = tails[b1 & 7]; cfg.step_budget = 2000000;
  tso_rng = (uint64_t)c->seed * 0x9E3779B97F4A7C15ULL + 99;
  mv_install();
  mv_set_point_observer(tso_point); mv_set_fence_observer(tso_fence);
  mv_unit_begin(&cfg);
  pthread_t th[4];
  for (int t = 0; t < Q.nth; t++) pthread_create(&th[t], 0, participant, (void *)(intptr_t)t);
  for (int t = 0; t < Q.nth; t++) pthread_join(th[t], 0);
  mv_finished();
  /* quiescence */
  long model_size = n_ins_done - n_rem_done;
  if (q.top - q.base != model_size) mt_fail("top-base == %d at quiescence, model holds %ld elements (an element was lost or duplicated)", q.top - q.base, model_size);
  if (q.base < 0 || q.top > q.size) mt_fail("indices out of the storage: base=%d top=%d size=%d", q.base, q.top, q.size);
  /* single-threaded drain */
  for (;;) { struct myth_thread * t = myth_queue_pop(&q); if (!t) break; got(t, "final drain"); n_rem_done++; }
  for (int i = 0; i < next_tag; i++) {
    if (ins_done[i] && rem_count[i] != 1) mt_fail("tag %d was inserted but returned %d times (lost)", i, rem_count[i]);
    if (!ins_done[i] && rem_count[i]) mt_fail("tag %d whose insertion failed was returned", i);
  }
  long moves = (long)(mv_hits[MVP_Q_PUSH_MOVE] + mv_hits[MVP_Q_PUT_MOVE]);
  mt_stat("ops", ops_done); mt_stat("overlaps_on_small_queue", overlaps_small); mt_stat("recentred", moves); mt_stat("null_removes", n_null);
  mt_stat("tso_buffered", tso_buffered); mt_stat("slow_path_pops", (long)mv_hits[MVP_Q_POP_SLOW]); mt_stat("peeks", n_peek);
  if (overlaps_small) mt_label("overlap_on_le2_elements"); if (moves) mt_label("recentred"); if (tso_buffered) mt_label("store_buffered");
  if (mv_hits[MVP_Q_POP_SLOW]) mt_label("pop_slow_path"); if (n_null) mt_label("null_remove"); if (Q.tso) mt_label("tso"); else mt_label("sc");
  mt_nontrivial(overlaps_small > 0 || moves > 0);
}
