#!/bin/bash
# build_pth_clients.sh : C16 clients from /repo's working tree -> $MT_BUILD/pth/{pth_plain,pth_ld} and $MT_BUILD/dl/libmyth.so
set -e
REPO=${REPO:-/repo}
VERIF=$(cd "$(dirname "$0")/.." && pwd)
B=${MT_BUILD:-$VERIF/build}
$VERIF/bin/build_repo.sh ld
$VERIF/bin/build_repo.sh dl
mkdir -p $B/pth
gcc -O0 -g -I$VERIF/harness -w $VERIF/harness/pth_client.c $VERIF/harness/mvsched.c -lpthread -o $B/pth/pth_plain
gcc -O0 -g -I$VERIF/harness -w $VERIF/harness/pth_client.c $VERIF/harness/mvsched.c @$REPO/src/myth-ld.opts $B/ld/libmyth.a -lpthread -ldl -lrt -o $B/pth/pth_ld
