#!/usr/bin/env python3
"""mkcase.py PROP SEED [ncfg nprog nsched] -> writes a random case blob to stdout (smoke tests only;
the real generators are the rapidcheck drivers)."""
import sys, struct, random
prop=int(sys.argv[1]); seed=int(sys.argv[2])
ncfg=int(sys.argv[3]) if len(sys.argv)>3 else 8
nprog=int(sys.argv[4]) if len(sys.argv)>4 else 64
nsched=int(sys.argv[5]) if len(sys.argv)>5 else 128
flags=int(sys.argv[6]) if len(sys.argv)>6 else 1
r=random.Random(seed)
cfg=bytes(r.randrange(256) for _ in range(ncfg))
prog=bytes(r.randrange(256) for _ in range(nprog))
sched=bytes(r.randrange(256) for _ in range(nsched))
sys.stdout.buffer.write(b"MVC1"+bytes([prop,flags,0,0])+struct.pack("<IIII",seed,len(cfg),len(prog),len(sched))+cfg+prog+sched)
