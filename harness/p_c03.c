/* C03 -- a thread's registers and stack survive every context switch and migration.
 *
 * Program: T probe threads execute the same generated list of phases (so that collective phases
 * match and the program is deadlock free by construction):
 *   YIELD(opt)            myth_yield_ex with each of the five options
 *   CREATEJOIN(cf,k)      create a child (child-first / parent-first, default / custom stack) that yields k times; join it
 *   MUTEX(y)              lock a shared mutex, yield y times inside, unlock
 *   BARRIER               all T threads
 *   CONDTURN              turnstile round through all T threads (cond_wait + broadcast)
 *   JC                    join counter initialised to T: dec, then wait
 *   UNCOND                threads 2i / 2i+1 exchange one item each way through an uncondition-variable mailbox
 * Around every library call that may switch, the thread loads six generated 64-bit patterns into
 * rbx, rbp, r12..r15 (assembly trampoline probe_call), keeps a generated-size array on its stack
 * filled with a per-thread pattern, and compares all six registers and the array afterwards.
 * Thread entry goes through an assembly stub that records rsp mod 16; the engine's point observer
 * checks the frame alignment at every hook (a misaligned callback entry propagates to it).
 */
#include "scen_util.h"

long probe_call(void * fn, void * a1, void * a2, const unsigned long pat[6], unsigned long out[6]);
void * probe_entry(void * p);
struct pstart { long align; void * (*fn)(void *); void * arg; };

enum { PH_YIELD, PH_CREATEJOIN, PH_MUTEX, PH_BARRIER, PH_CONDTURN, PH_JC, PH_UNCOND, PH_N };
static const char * phname[] = { "yield", "create+join", "mutex", "barrier", "condturn", "joincounter", "uncond" };
typedef struct { int kind, a, b, c; } phase_t;
#define MAXPH 24
static struct {
  int T, nph; phase_t ph[MAXPH]; int arr_len[16];
  myth_mutex_t m; myth_cond_t cv; int turn; myth_barrier_t bar; myth_join_counter_t jc[MAXPH];
  volatile long box[16]; myth_uncond_t un[16];
  volatile long ran_on[MV_MAXP];
  long probes, switched, migrated, entries;
} G;
static const size_t cstk[] = { 0, 16384, 32768, 20000 };

static __attribute__((noinline)) void align_observer(int id, int me) {
  (void)id; (void)me;
  uintptr_t fp = (uintptr_t)__builtin_frame_address(0);
  if (fp % 16 != 0) mt_fail("stack misaligned inside the library at hook %d: frame pointer %% 16 == %lu (a function was entered on a stack that violates the ABI)", id, (unsigned long)(fp % 16));
}

typedef struct { int tid; unsigned long rs; } pth_t;
static unsigned long nextpat(pth_t * p) { p->rs = p->rs * 6364136223846793005ULL + 1442695040888963407ULL; return p->rs ^ (p->rs >> 29); }

/* perform fn(a1,a2) with the registers loaded and the stack array armed */
static void __attribute__((noinline)) probed(pth_t * p, void * fn, void * a1, void * a2, int expect_ret_zero) {
  unsigned long pat[6], out[6];
  for (int i = 0; i < 6; i++) pat[i] = nextpat(p);
  int n = G.arr_len[p->tid];
  volatile unsigned char * arr = __builtin_alloca((size_t)n + 16);
  unsigned char seed = (unsigned char)(pat[0] >> 8);
  for (int i = 0; i < n; i++) arr[i] = (unsigned char)(seed + i * 7);
  int w0 = myth_get_worker_num();
  long r0 = __sync_add_and_fetch(&G.ran_on[w0], 1);
  long rv = probe_call(fn, a1, a2, pat, out);
  int w1 = myth_get_worker_num();
  for (int i = 0; i < 6; i++) if (out[i] != pat[i])
    mt_fail("callee-saved register %s changed across a library call that switched context: %016lx -> %016lx (thread %d)",
            (const char *[]){ "rbx", "rbp", "r12", "r13", "r14", "r15" }[i], pat[i], out[i], p->tid);
  for (int i = 0; i < n; i++) if (arr[i] != (unsigned char)(seed + i * 7)) mt_fail("stack contents of thread %d changed while it was suspended (offset %d of %d)", p->tid, i, n);
  if (expect_ret_zero && (int)rv != 0) mt_fail("library call returned %d", (int)rv);   /* int functions: only eax is defined */
  __sync_fetch_and_add(&G.probes, 1);
  if (w1 != w0) { __sync_fetch_and_add(&G.migrated, 1); __sync_fetch_and_add(&G.switched, 1); }
  else if (G.ran_on[w0] != r0) __sync_fetch_and_add(&G.switched, 1);
  mv_progress();
}

static const size_t c03_cd[4] = { 0, 12, 256, 136 };
static void * child_body(void * a) { int k = (int)(intptr_t)a; size_t cd = myth_wsapi_get_hint_size(0); mt_cd_verify(cd, "when the child starts"); for (int i = 0; i < k; i++) { myth_yield(); mv_progress(); } mt_cd_verify(cd, "after the child's yields (its own frames overlap it?)"); return (void *)(intptr_t)(k + 100); }
static struct pstart child_ps[16][MAXPH];

static void * probe_thread(void * a) {
  pth_t p; p.tid = (int)(intptr_t)a; p.rs = 0x9e3779b97f4a7c15ULL * (unsigned long)(p.tid + 1);
  size_t my_cd = myth_wsapi_get_hint_size(0); mt_cd_verify(my_cd, "when the probe thread starts");
  for (int i = 0; i < G.nph; i++) {
    phase_t * ph = &G.ph[i];
    __sync_fetch_and_add(&G.ran_on[myth_get_worker_num()], 1);
    switch (ph->kind) {
    case PH_YIELD: probed(&p, (void *)myth_yield_ex, (void *)(intptr_t)ph->a, 0, 0); break;   /* void function: no return value */
    case PH_CREATEJOIN: {
      myth_thread_attr_t at; myth_thread_t t; void * rv = 0;
      struct pstart * ps = &child_ps[p.tid][i];
      ps->align = -1; ps->fn = child_body; ps->arg = (void *)(intptr_t)ph->b;
      myth_thread_attr_init(&at); at.child_first = ph->a;
      if (cstk[ph->c]) myth_thread_attr_setstacksize(&at, cstk[ph->c]); else at.stacksize = 0;
      mt_cd_attach(&at, c03_cd[(ph->b + ph->c + i) & 3]);
      /* the creating call itself is probed: child-first creation switches into the child */
      unsigned long pat[6], out[6]; for (int k = 0; k < 6; k++) pat[k] = nextpat(&p);
      /* myth_create_ex has 4 arguments: use a small trampoline */
      struct { myth_thread_t * t; myth_thread_attr_t * at; struct pstart * ps; } ca = { &t, &at, ps };
      extern long c03_create_tramp(void *, void *);
      long rc = probe_call((void *)c03_create_tramp, &ca, 0, pat, out);
      for (int k = 0; k < 6; k++) if (out[k] != pat[k]) mt_fail("callee-saved register %d changed across myth_create_ex (%s)", k, ph->a ? "child first" : "parent first");
      if (rc) mt_fail("myth_create_ex returned %ld", rc);
      probed(&p, (void *)myth_join, (void *)t, &rv, 1);
      if (rv != (void *)(intptr_t)(ph->b + 100)) mt_fail("join value %p", rv);
      if (ps->align != 8) mt_fail("thread start function entered with rsp %% 16 == %ld (ABI requires 8) on the %s path, stack size %zu", ps->align, ph->a ? "child-first" : "parent-first", cstk[ph->c]);
      __sync_fetch_and_add(&G.entries, 1);
      break; }
    case PH_MUTEX:
      probed(&p, (void *)myth_mutex_lock, &G.m, 0, 1);
      for (int k = 0; k < ph->a; k++) probed(&p, (void *)myth_yield_ex, (void *)(intptr_t)myth_yield_option_local_first, 0, 0);
      Z0(myth_mutex_unlock(&G.m));
      break;
    case PH_BARRIER: probed(&p, (void *)myth_barrier_wait, &G.bar, 0, 0); break;
    case PH_CONDTURN:
      myth_mutex_lock(&G.m);
      while (G.turn != p.tid) probed(&p, (void *)myth_cond_wait, &G.cv, &G.m, 1);
      G.turn = (p.tid + 1) % G.T;
      myth_cond_broadcast(&G.cv);
      Z0(myth_mutex_unlock(&G.m));
      break;
    case PH_JC:
      myth_join_counter_dec(&G.jc[i]);
      probed(&p, (void *)myth_join_counter_wait, &G.jc[i], 0, 1);
      break;
    case PH_UNCOND: {
      /* pairs (2i, 2i+1): even sends first then receives, odd receives then sends; last odd-one-out skips */
      int pair = p.tid / 2, partner = p.tid ^ 1;
      if (partner >= G.T) break;
      for (int dir = 0; dir < 2; dir++) {
        int sender = (dir == 0) ? (p.tid % 2 == 0) : (p.tid % 2 == 1);
        volatile long * slot = &G.box[pair * 2 + dir]; myth_uncond_t * un = &G.un[pair * 2 + dir];
        if (sender) {
          for (;;) { long o = *slot;
            if (o & 1) { mv_spin(US_GATE); myth_yield(); continue; }     /* previous item not yet taken: cannot happen twice in a row */
            if (__sync_bool_compare_and_swap(slot, o, ((long)(i * 16 + dir + 1) << 2) | 1)) { if (o & 2) myth_uncond_signal(un); break; } }
        } else {
          for (;;) { long o = *slot;
            if (o & 1) { if (__sync_bool_compare_and_swap(slot, o, 0)) { if ((o >> 2) != i * 16 + dir + 1) mt_fail("uncond mailbox delivered %ld", o >> 2); break; } }
            else if (__sync_bool_compare_and_swap(slot, o, o | 2)) probed(&p, (void *)myth_uncond_wait, un, 0, 1); }
        }
      }
      break; }
    }
    op_done();
  }
  mt_cd_verify(my_cd, "at the end of the probe thread (frames or another stack overlap it?)");
  return 0;
}

long c03_create_tramp(void * a, void * unused) {
  struct { myth_thread_t * t; myth_thread_attr_t * at; struct pstart * ps; } * ca = a; (void)unused;
  return myth_create_ex(ca->t, ca->at, probe_entry, ca->ps);
}

void scen_c03(mt_case * c) {
  mt_engine_cfg e; rd_t * r = &c->prog;
  mt_decode_engine(c, &e, c->tier ? 16 : 8);
  G.T = rd_range(r, 1, 8); G.nph = rd_range(r, 1, c->tier ? MAXPH : 10);
  mt_desc("C03 probes: T=%d phases:", G.T);
  for (int i = 0; i < G.nph; i++) {
    phase_t * ph = &G.ph[i];
    ph->kind = (int)rd_below(r, PH_N);
    ph->a = ph->b = ph->c = 0;
    switch (ph->kind) {
    case PH_YIELD: ph->a = (int)rd_below(r, 5); break;
    case PH_CREATEJOIN: ph->a = (int)rd_below(r, 2); ph->b = (int)rd_below(r, 4); ph->c = (int)rd_below(r, 4); break;
    case PH_MUTEX: ph->a = (int)rd_below(r, 3); break;
    }
    mt_desc(" %s(%d,%d,%d)", phname[ph->kind], ph->a, ph->b, ph->c);
  }
  mt_desc("\n stack arrays:");
  static const int lens[] = { 64, 200, 1024, 4096, 12288, 32768 };
  for (int t = 0; t < G.T; t++) { G.arr_len[t] = lens[rd_below(r, 6)]; mt_desc(" %d", G.arr_len[t]); }
  mt_desc("\n");
  mt_hash(c->prog.p, c->prog.pos);
  mt_allow_prelude = 1;
  mt_lib_start(c, &e, 0);
  mv_set_point_observer(align_observer);
  MT_DIRTY(G.m); MT_DIRTY(G.cv); MT_DIRTY(G.bar); MT_DIRTY(G.jc); MT_DIRTY(G.un);
  Z0(myth_mutex_init(&G.m, 0)); myth_cond_init(&G.cv, 0); Z0(myth_barrier_init(&G.bar, 0, G.T));
  for (int i = 0; i < G.nph; i++) myth_join_counter_init(&G.jc[i], 0, G.T);
  for (int i = 0; i < 16; i++) myth_uncond_init(&G.un[i]);
  /* probe threads are themselves entered through the assembly stub, alternating creation order */
  myth_thread_t th[16]; static struct pstart ps[16];
  for (int t = 0; t < G.T; t++) {
    myth_thread_attr_t at; myth_thread_attr_init(&at); at.stacksize = 0; at.child_first = (int)rd_below(r, 2);
    mt_cd_attach(&at, c03_cd[(t + G.nph) & 3]);
    ps[t].align = -1; ps[t].fn = probe_thread; ps[t].arg = (void *)(intptr_t)t;
    Z0(myth_create_ex(&th[t], &at, probe_entry, &ps[t]));
  }
  for (int t = 0; t < G.T; t++) { Z0(myth_join(th[t], 0)); mv_progress(); }
  mt_lib_finish();
  for (int t = 0; t < G.T; t++) if (ps[t].align != 8) mt_fail("probe thread %d entered with rsp %% 16 == %ld (ABI requires 8)", t, ps[t].align);
  mt_stat("probes", G.probes); mt_stat("switched", G.switched); mt_stat("migrated", G.migrated); mt_stat("entries_checked", G.entries + G.T);
  int used[PH_N] = { 0 }; for (int i = 0; i < G.nph; i++) used[G.ph[i].kind] = 1;
  for (int k = 0; k < PH_N; k++) if (used[k]) mt_label(phname[k]);
  if (G.switched) mt_label("probe_switched"); if (G.migrated) mt_label("probe_migrated");
  mt_nontrivial(G.switched > 0);
}
