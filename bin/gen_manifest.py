#!/usr/bin/env python3
"""gen_manifest.py -- writes /verif/MANIFEST.json from bin/checkcfg.py (single source of truth)"""
import json, os, sys, subprocess
VERIF = os.path.dirname(os.path.dirname(os.path.abspath(__file__)))
sys.path.insert(0, os.path.join(VERIF, 'bin'))
from checkcfg import PROPS, LEVEL
from manifest_text import TEXT, NOT_APPLICABLE, ENGINES

all_ids = [json.loads(l)['id'] for l in open(os.path.join(VERIF, 'properties.jsonl'))]
hooks = subprocess.run(['git', '-C', '/repo', 'log', '--format=%H %s'], stdout=subprocess.PIPE).stdout.decode().splitlines()
hook_commits = [l.split()[0] for l in hooks if ' verif hooks:' in l or ' verif hook:' in l]
checks = []
for pid in all_ids:
    if pid not in PROPS:
        continue
    t = TEXT[pid]
    checks.append({
        'property_id': pid,
        'quick_cmd': f'bin/check {pid} --tier quick',
        'thorough_cmd': f'bin/check {pid} --tier thorough',
        'evidence_file': f'/verif/evidence/{pid}.json',
        'replay_cmd_template': f'bin/check {pid} --replay {{path}}',
        'engine': t['engine'],
        'level_claimed': {'category': LEVEL, 'text': t['level'], 'design_ref': t['design_ref']},
        'level_note': t['note'],
        'technique': t['technique'],
    })
na = [{'property_id': pid, 'reason': NOT_APPLICABLE.get(pid, 'check not built yet in this round (planned, see DESIGN.md section 3)')}
      for pid in all_ids if pid not in PROPS]
m = {
    'version': 1,
    'setup_cmd': 'bin/setup.sh',
    'hooks': {
        'guard': 'MYTH_VERIF',
        'enable': 'bin/build_repo.sh <variant> compiles /repo/src/*.c directly with -DMYTH_VERIF (variants v0,v2,va,ld,dl); hooks are NULL function pointers until the harness installs them',
        'baseline_off_cmd': 'cd /repo && make -j16 >/dev/null 2>&1 && make -j8 check',
        'source_commits': hook_commits,
        'add_only': False,
    },
    'engines': ENGINES,
    'checks': checks,
    'notes': 'Technique family: property-based testing and fuzzing. Generated (program, configuration, schedule) triples are executed against the real library under a token scheduler driven through guarded hook points; oracles are reference models / history invariants; failures shrink to a replay file. Every library scenario additionally varies, from configuration bytes of the case, the default stack size, the memory under synchronisation objects before their init call, thread creation flavours, pending / disabled cancellation in created threads, a prelude of unrelated library use, and long in-place polling windows; and enforces owner discipline of run queues and per-worker free lists and the documented zero return of successful calls (DESIGN.md 2.6). add_only is false because four bodiless spin loops (`while (cond);`) had their line rewritten to carry a MYTH_VERIF_SPIN hook (see DESIGN.md 2.2).',
    'not_applicable': na,
}
json.dump(m, open(os.path.join(VERIF, 'MANIFEST.json'), 'w'), indent=1)
print('MANIFEST.json written:', len(checks), 'checks,', len(na), 'not claimed')
