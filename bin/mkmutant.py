#!/usr/bin/env python3
"""mkmutant helper: from mkmutant import mk; mk(name, [(file, old, new), ...]) -> /verif/mutants/<name>.diff
(edits happen in a scratch worktree of /repo, never in /repo itself)"""
import subprocess, tempfile, os, shutil, sys
def mk(name, edits, outdir='/verif/mutants'):
    wt = tempfile.mkdtemp(prefix='mtmk.', dir='/tmp')
    os.rmdir(wt)
    subprocess.check_call(['git', '-C', '/repo', 'worktree', 'add', '--detach', '-q', wt, 'HEAD'])
    try:
        for f, old, new in edits:
            p = os.path.join(wt, f)
            s = open(p).read()
            assert s.count(old) == 1, (name, f, s.count(old), old[:60])
            open(p, 'w').write(s.replace(old, new))
        d = subprocess.run(['git', '-C', wt, 'diff'], stdout=subprocess.PIPE).stdout
        assert d, name
        os.makedirs(outdir, exist_ok=True)
        open(os.path.join(outdir, name + '.diff'), 'wb').write(d)
        print('wrote', name)
    finally:
        subprocess.call(['git', '-C', '/repo', 'worktree', 'remove', '--force', wt])
        shutil.rmtree(wt, ignore_errors=True)
        subprocess.call(['git', '-C', '/repo', 'worktree', 'prune'])
