/* C02 (2) -- runnable threads are never lost or duplicated, whole library, with a generated
 * custom steal function (myth_wsapi_set_stealfunc) that uses myth_wsapi_runqueue_take with a
 * declining decision callback, peek, and pass to another worker.
 *
 * Program: K threads run scripts of yields (all five options), short create+join of a child and
 * contended lock sections; W in 1..8.  Every thread keeps an `active` flag and a program counter:
 * a context resumed by two workers trips the flag or finds the counter advanced; a lost thread
 * shows as DEADLOCK / STUCK.  A candidate declined by the decision callback must stay available
 * (the program still terminates and every thread finishes exactly once).
 */
#include "scen_util.h"

enum { L_YIELD, L_SPAWN, L_LOCK, L_N };
typedef struct { int kind, a; } lop_t;
#define MAXLOP 16
static struct {
  int K, W; int nop[16]; lop_t op[16][MAXLOP]; int pf[16];
  int decline_pct, peek_pct, pass_pct, use_custom;
  myth_mutex_t m; witness_t wit;
} L;
typedef struct { volatile int active; volatile int pc; volatile int started, ended; } lth_t;
static lth_t lt[16];
static uint64_t srng[MV_MAXP];
static volatile long st_steal_ok, st_declined, st_peeks, st_passed, st_pass_failed, st_attempts;

static unsigned srand_next(int rank) { srng[rank] = srng[rank] * 6364136223846793005ULL + 1442695040888963407ULL; return (unsigned)(srng[rank] >> 33); }

static int decide(myth_thread_t th, void * udata) {
  int rank = (int)(intptr_t)udata; (void)th;
  if ((int)(srand_next(rank) % 100) < L.decline_pct) { __sync_fetch_and_add(&st_declined, 1); return 0; }
  return 1;
}

static myth_thread_t my_steal(int rank) {
  if (L.W <= 1) return 0;
  __sync_fetch_and_add(&st_attempts, 1);
  int victim = (int)(srand_next(rank) % (unsigned)(L.W - 1)); if (victim >= rank) victim++;
  if ((int)(srand_next(rank) % 100) < L.peek_pct) {
    char buf[64]; size_t sz = sizeof buf;
    myth_wsapi_runqueue_peek(victim, buf, &sz);      /* only a hint: the result is not used */
    __sync_fetch_and_add(&st_peeks, 1);
  }
  myth_thread_t t = myth_wsapi_runqueue_take(victim, decide, (void *)(intptr_t)rank);
  if (!t) return 0;
  __sync_fetch_and_add(&st_steal_ok, 1);
  if ((int)(srand_next(rank) % 100) < L.pass_pct) {
    int target = (int)(srand_next(rank) % (unsigned)L.W);
    if (target != rank && myth_wsapi_runqueue_pass(target, t)) { __sync_fetch_and_add(&st_passed, 1); return 0; }
    __sync_fetch_and_add(&st_pass_failed, 1);
  }
  return t;
}

static void resume_check(lth_t * me, int pc, const char * where) {
  if (me->pc != pc) mt_fail("thread resumed twice: program counter %d, expected %d (%s)", me->pc, pc, where);
}
static void * child(void * a) { int k = (int)(intptr_t)a; for (int i = 0; i < k; i++) { myth_yield(); mv_progress(); } return a; }

static void * lbody(void * a) {
  int id = (int)(intptr_t)a; lth_t * me = &lt[id];
  if (__sync_add_and_fetch(&me->started, 1) != 1) mt_fail("thread %d started twice", id);
  if (__sync_lock_test_and_set(&me->active, 1)) mt_fail("thread %d is running on two workers", id);
  for (int i = 0; i < L.nop[id]; i++) {
    lop_t * o = &L.op[id][i];
    me->pc = i;
    switch (o->kind) {
    case L_YIELD:
      __sync_lock_release(&me->active);
      myth_yield_ex(o->a);
      if (__sync_lock_test_and_set(&me->active, 1)) mt_fail("thread %d was resumed while it was already running (duplicate in the run queues)", id);
      resume_check(me, i, "yield"); break;
    case L_SPAWN: {
      myth_thread_t t; void * rv = 0;
      __sync_lock_release(&me->active);
      Z0(mt_create(&t, child, (void *)(intptr_t)o->a));
      myth_join(t, &rv);
      if (__sync_lock_test_and_set(&me->active, 1)) mt_fail("thread %d was resumed while it was already running", id);
      if (rv != (void *)(intptr_t)o->a) mt_fail("child value %p", rv);
      resume_check(me, i, "create+join"); break; }
    case L_LOCK:
      __sync_lock_release(&me->active);
      Z0(myth_mutex_lock(&L.m));
      if (__sync_lock_test_and_set(&me->active, 1)) mt_fail("thread %d was resumed while it was already running", id);
      wit_enter(&L.wit, "lock"); do_yields(o->a); wit_leave(&L.wit, "unlock");
      Z0(myth_mutex_unlock(&L.m));
      resume_check(me, i, "lock"); break;
    }
    me->pc = i + 1;
    op_done();
  }
  __sync_lock_release(&me->active);
  if (__sync_add_and_fetch(&me->ended, 1) != 1) mt_fail("thread %d finished twice", id);
  return 0;
}

void scen_c02_lib(mt_case * c) {
  mt_engine_cfg e; rd_t * r = &c->prog;
  mt_decode_engine(c, &e, c->tier ? 16 : 8);
  L.W = e.W;
  L.K = rd_range(r, 1, 12);
  L.use_custom = rd_below(r, 4) != 0;
  L.decline_pct = (int[]){ 0, 20, 50, 80 }[rd_below(r, 4)]; L.peek_pct = (int[]){ 0, 30, 100 }[rd_below(r, 3)]; L.pass_pct = (int[]){ 0, 25, 60 }[rd_below(r, 3)];
  mt_desc("C02 library: K=%d threads, %s steal function (decline %d%%, peek %d%%, pass %d%%)\n", L.K, L.use_custom ? "custom" : "default", L.decline_pct, L.peek_pct, L.pass_pct);
  for (int t = 0; t < L.K; t++) {
    L.nop[t] = rd_range(r, 1, c->tier ? MAXLOP : 8); L.pf[t] = (int)rd_below(r, 3) == 0;
    mt_desc(" t%d%s:", t, L.pf[t] ? "(parent-first)" : "");
    for (int i = 0; i < L.nop[t]; i++) {
      unsigned x = rd_u8(r); lop_t * o = &L.op[t][i];
      o->kind = (x & 3) == 3 ? L_LOCK : ((x & 3) == 2 ? L_SPAWN : L_YIELD);
      o->a = (o->kind == L_YIELD) ? (int)((x >> 2) % 5) : (int)((x >> 2) % 3);
      mt_desc(" %s%d", (const char *[]){ "y", "spawn", "lock" }[o->kind], o->a);
    }
    mt_desc("\n");
  }
  mt_hash(c->prog.p, c->prog.pos);
  for (int i = 0; i < MV_MAXP; i++) srng[i] = (uint64_t)c->seed * 1000003ULL + (uint64_t)i * 7919 + 1;
  mt_allow_prelude = 1;
  mt_lib_start(c, &e, 0);
  myth_steal_func_t prev = 0;
  if (L.use_custom) prev = myth_wsapi_set_stealfunc(my_steal);
  MT_DIRTY(L.m); Z0(myth_mutex_init(&L.m, 0));
  myth_thread_t th[16];
  for (int t = 0; t < L.K; t++) {
    myth_thread_attr_t at; myth_thread_attr_init(&at); at.stacksize = 0; at.child_first = !L.pf[t];
    Z0(myth_create_ex(&th[t], &at, lbody, (void *)(intptr_t)t));
    mv_progress();
  }
  for (int t = 0; t < L.K; t++) { Z0(myth_join(th[t], 0)); mv_progress(); }
  if (L.use_custom) myth_wsapi_set_stealfunc(prev);
  mt_lib_finish();
  for (int t = 0; t < L.K; t++) {
    if (lt[t].started != 1 || lt[t].ended != 1) mt_fail("thread %d started %d / finished %d times", t, lt[t].started, lt[t].ended);
    if (lt[t].pc != L.nop[t]) mt_fail("thread %d stopped at op %d of %d", t, lt[t].pc, L.nop[t]);
  }
  if (mt_total_runnable() != 0) mt_fail("%ld entries left in the run queues after everything finished", mt_total_runnable());
  long default_steals = (long)HIT(MVP_Q_TAKE_D);
  mt_stat("steal_attempts", st_attempts); mt_stat("custom_steals", st_steal_ok); mt_stat("declined", st_declined); mt_stat("peeks", st_peeks);
  mt_stat("passed", st_passed); mt_stat("pass_failed", st_pass_failed); mt_stat("default_takes", default_steals);
  if (st_steal_ok) mt_label("custom_steal"); if (st_declined) mt_label("declined_candidate"); if (st_passed) mt_label("passed_to_other_worker");
  if (st_peeks) mt_label("peeked"); if (!L.use_custom) mt_label("default_steal_function"); if (default_steals) mt_label("default_take");
  mt_nontrivial((st_steal_ok > 0 && st_declined > 0) || (!L.use_custom && default_steals > 0));
}
