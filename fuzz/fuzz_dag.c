/* libFuzzer target for C18 / C19: the DAG-recorder simulator of harness/p_dag.c run in-process.
 *
 * The fuzzer's bytes are the program bytes of the scenario (byte 0: number of virtual workers and
 * which of the two property oracles runs); the recorder's global state, the pthread keys it
 * creates and the scenario's counters are reset at the top of every iteration, so a crash
 * reproduces from the saved input alone.  The oracle is the scenario's (hook-fed totals oracle for
 * C18; validator / round trip / replay / shrinking copy for C19); a violation prints the message
 * and traps.
 */
#define MT_INPROCESS 1
#include "../harness/p_dag.c"
#include <stdarg.h>

static long n_exec, n_nt, n_c19; static uint64_t seenh[1 << 16]; static long n_distinct_nt; static int cur_nt; static uint64_t cur_hash;
static char samples[6][400]; static int n_samples; static char descbuf[4096]; static size_t desclen;
static const char * statfile;

void mt_desc(const char * fmt, ...) { va_list ap; va_start(ap, fmt); if (desclen < sizeof descbuf - 1) { int n = vsnprintf(descbuf + desclen, sizeof descbuf - desclen, fmt, ap); if (n > 0) desclen += (size_t)n; if (desclen >= sizeof descbuf) desclen = sizeof descbuf - 1; } va_end(ap); }
void mt_label(const char * l) { (void)l; }
void mt_nontrivial(int yes) { if (yes) cur_nt = 1; }
void mt_hash(const void * p, size_t n) { const uint8_t * b = p; for (size_t i = 0; i < n; i++) cur_hash = (cur_hash ^ b[i]) * 1099511628211ULL; }
void mt_hash_u(uint64_t v) { mt_hash(&v, sizeof v); }
void mt_stat(const char * k, long v) { (void)k; (void)v; }
void mt_known(const char * id) { (void)id; }
void mt_flush_early(void) { }
static void dump(void) {
  if (!statfile) return;
  FILE * f = fopen(statfile, "w"); if (!f) return;
  fprintf(f, "{\"evaluations\":%ld,\"distinct_nontrivial\":%ld,\"nontrivial_runs\":%ld,\"c19_runs\":%ld,\"samples\":[", n_exec, n_distinct_nt, n_nt, n_c19);
  for (int i = 0; i < n_samples; i++) { fprintf(f, "%s\"", i ? "," : ""); for (char * p = samples[i]; *p; p++) { if (*p == '"' || *p == '\\') fputc('\\', f); if (*p == '\n') fputs("\\n", f); else if ((unsigned char)*p < 32) fputc(' ', f); else fputc(*p, f); } fprintf(f, "\""); }
  fprintf(f, "]}\n"); fclose(f);
}
void mt_fail(const char * fmt, ...) { va_list ap; va_start(ap, fmt); fprintf(stderr, "DAG ORACLE: "); vfprintf(stderr, fmt, ap); fprintf(stderr, "\n%s\n", descbuf); va_end(ap); dump(); __builtin_trap(); }
void mt_reject(const char * why) { (void)why; dump(); _exit(0); }
void mt_ok(void) { dump(); _exit(0); }
void mv_verdict(int code, const char * fmt, ...) { (void)code; (void)fmt; _exit(0); }

int LLVMFuzzerInitialize(int * argc, char *** argv) { (void)argc; (void)argv; statfile = getenv("FUZZ_STAT_FILE"); atexit(dump); return 0; }

int LLVMFuzzerTestOneInput(const uint8_t * data, size_t size) {
  if (size < 2) return 0;
  /* reset everything that may leak between iterations */
  memset(cnt_kind, 0, sizeof cnt_kind); memset(workers_seen, 0, sizeof workers_seen); last_len = 0; hook_calls = 0; multi_worker = 0; nops = 0; pc = 0;
  desclen = 0; descbuf[0] = 0; cur_nt = 0; cur_hash = 1469598103934665603ULL;
  mt_case c; memset(&c, 0, sizeof c);
  uint8_t cfg[1] = { data[0] };
  c.cfg.p = cfg; c.cfg.n = 1; c.prog.p = data + 1; c.prog.n = size - 1; c.tier = 0;
  int prop = (data[0] & 0x80) ? 19 : 18;
  FILE * saved = stderr; (void)saved;
  run_dag(&c, prop);
  /* uninitialise the recorder completely (it initialises itself once per process otherwise) */
  dr_cleanup__("fuzz", 1, 0, W);
  if (GS.worker_specific_state_key_valid) { pthread_key_delete(GS.worker_specific_state_key); GS.worker_specific_state_key_valid = 0; }
  if (GS.worker_id_key_valid) { pthread_key_delete(GS.worker_id_key); GS.worker_id_key_valid = 0; }
  GS.generation = 0; GS.worker_id_counter = 0; GS.thread_start_hook = 0;
  n_exec++; if (prop == 19) n_c19++;
  if (cur_nt) {
    n_nt++;
    uint64_t * slot = &seenh[cur_hash & 0xffff];
    if (*slot != cur_hash) { if (*slot == 0) n_distinct_nt++; *slot = cur_hash; if (n_samples < 6) { strncpy(samples[n_samples], descbuf, sizeof samples[0] - 1); n_samples++; } }
  }
  return 0;
}
