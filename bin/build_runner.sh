#!/bin/bash
# build_runner.sh <variant> : (re)build libmyth variant from /repo's working tree and link the
# scenario runner against it -> /verif/build/<variant>/runner
set -e
variant=${1:?variant}
REPO=${REPO:-/repo}
VERIF=$(cd "$(dirname "$0")/.." && pwd)
$VERIF/bin/build_repo.sh $variant
out=${MT_BUILD:-$VERIF/build}/$variant
case $variant in
  v0|ld|dl) cc=gcc; flags="-O0 -g -DMYTH_VERIF" ;;
  v2) cc=gcc; flags="-O2 -g -DMYTH_VERIF" ;;
  va) cc=clang; flags="-O1 -g -fsanitize=address,undefined -fno-sanitize=signed-integer-overflow,alignment,bounds -fno-omit-frame-pointer -DMYTH_VERIF -Dreal_pthread_attr_getstack=myth_real_pthread_attr_getstack" ;;
  c0) cc=clang; flags="-O0 -g -DMYTH_VERIF" ;;
  c2) cc=clang; flags="-O2 -g -DMYTH_VERIF" ;;
  n0) cc=gcc; flags="-O0 -g" ;;
esac
hs=$( (cat $VERIF/harness/*.c $VERIF/harness/*.cc $VERIF/harness/*.h $VERIF/harness/*.S $REPO/src/mtbb/*.h 2>/dev/null; cat $out/.hash) | sha1sum | cut -c1-16)
if [ -f $out/.runner_hash ] && [ "$(cat $out/.runner_hash)" = "$hs" ] && [ -x $out/runner ]; then exit 0; fi
srcs="runner.c runner_lib.c mvsched.c ledger.c scenarios.c $(cd $VERIF/harness && ls p_*.c)"
objs=""
pids=""
mkdir -p $out/h
for s in $srcs; do
  $cc -c $flags -D_GNU_SOURCE -DHAVE_CONFIG_H -I$REPO/include -I$REPO/src -I$REPO/src/profiler -I$VERIF/harness -DMYTH_WRAP=MYTH_WRAP_VANILLA -w \
     $VERIF/harness/$s -o $out/h/${s%.c}.o &
  pids="$pids $!"
  objs="$objs $out/h/${s%.c}.o"
done
for p in $pids; do wait $p || { echo "runner compile failed ($variant)" >&2; exit 2; }; done
cxx=g++; case $cc in clang) cxx=clang++ ;; esac
for s in $(cd $VERIF/harness && ls *.cc 2>/dev/null); do
  $cxx -c -std=gnu++14 $flags -D_GNU_SOURCE -DHAVE_CONFIG_H -I$REPO/include -I$REPO/src -I$VERIF/harness -DMYTH_WRAP=MYTH_WRAP_VANILLA -w \
     $VERIF/harness/$s -o $out/h/${s%.cc}.o || { echo "runner compile failed ($variant, $s)" >&2; exit 2; }
  objs="$objs $out/h/${s%.cc}.o"
done
if ls $VERIF/harness/*.S >/dev/null 2>&1; then
  for s in $VERIF/harness/*.S; do b=$(basename $s .S); $cc -c $s -o $out/h/$b.o; objs="$objs $out/h/$b.o"; done
fi
$cxx $flags -o $out/runner $objs $out/libmyth.a $out/libdr.a -lpthread -ldl -lrt -lm
echo "$hs" > $out/.runner_hash
