/* ledger.c -- resource ledger (see DESIGN.md 2.5) */
#include "common.h"
#include "ledger.h"
#include "myth_verif.h"
#if defined(__has_feature)
#if __has_feature(address_sanitizer)
#define LEDGER_ASAN 1
void __asan_unpoison_memory_region(void const volatile * addr, size_t size);
#endif
#endif
#ifdef LEDGER_ASAN
#define UNPOISON(lo, n) __asan_unpoison_memory_region((lo), (n))
#else
#define UNPOISON(lo, n) ((void)0)
#endif

#define MAXLT 131072
#define HSZ (1 << 18)
static lthread_t lt[MAXLT]; static int nlt;
typedef struct { void * key; int state; lthread_t * e; int poisoned; size_t last_size; } hent_t;   /* state 1 owned, 2 free */
static hent_t hd[HSZ], hs[HSZ];            /* records by address, stacks by top address */
static lthread_t * pending[MV_MAXP];
static lthread_t * owned_stacks[8192]; static int n_owned_stacks;
static size_t def_stack;
/* extents of the blocks custom-size stacks were carved from: [base, base + size class) */
typedef struct { char * lo, * hi; } extent_t;
static extent_t extents[4096]; static int n_extents;
static size_t pow2_class(size_t n) { size_t c = 4096; while (c < n) c <<= 1; return c; }
static long fresh_desc, fresh_stack, owned_desc, owned_stack_def, max_owned_desc, max_owned_stack, cross_frees, recycled;
static volatile int llock; static int poison_on = 1;
#define POISON_LEN 1024
#define POISON 0xDB

static void lk(void) { while (__sync_lock_test_and_set(&llock, 1)) { } }
static void ulk(void) { __sync_lock_release(&llock); }

static hent_t * hfind(hent_t * h, void * key, int create) {
  size_t i = ((uintptr_t)key >> 4) * 2654435761u % HSZ;
  for (size_t n = 0; n < HSZ; n++, i = (i + 1) % HSZ) {
    if (h[i].key == key) return &h[i];
    if (!h[i].key) { if (!create) return 0; h[i].key = key; return &h[i]; }
  }
  mt_reject("ledger table full");
}

void mt_freelist_owner_check(int rank, int is_free, int kind);
static void on_alloc(int kind, void * ptr, size_t size, int rank) {
  mt_freelist_owner_check(rank, 0, kind);
  lk();
  if (kind == MVA_DESC) {
    hent_t * h = hfind(hd, ptr, 1);
    if (h->state == 1) { ulk(); mt_fail("ledger: thread record %p handed out while still owned by a live thread", ptr); }
    if (h->state == 0) fresh_desc++; else recycled++;
    if (nlt >= MAXLT) { ulk(); mt_reject("ledger: too many threads"); }
    lthread_t * e = &lt[nlt++];
    memset(e, 0, sizeof *e);
    e->desc = ptr; e->desc_state = 1; e->alloc_rank = rank;
    h->state = 1; h->e = e;
    if (++owned_desc > max_owned_desc) max_owned_desc = owned_desc;
    if (rank >= 0 && rank < MV_MAXP) pending[rank] = e;
  } else {
    char * hi = (char *)ptr + 16;
    size_t sz = size ? size : def_stack;
    char * lo = hi - sz;
    for (int i = 0; i < n_owned_stacks; i++) {
      lthread_t * o = owned_stacks[i];
      if (lo < o->hi && o->lo < hi) { ulk(); mt_fail("ledger: new stack [%p,%p) overlaps the stack [%p,%p) of a live thread", (void *)lo, (void *)hi, (void *)o->lo, (void *)o->hi); }
    }
    if (size) {
      /* a custom-size stack occupies the first `size` bytes of a block of the allocator's size class;
         a recycled block must be handed out from its base again */
      int inside = 0;
      for (int i = 0; i < n_extents; i++) {
        if (lo == extents[i].lo && hi <= extents[i].hi) { inside = 1; break; }
        if (lo < extents[i].hi && extents[i].lo < hi) { ulk(); mt_fail("ledger: custom stack [%p,%p) handed out at a shifted position inside / across the block [%p,%p) it was carved from earlier (released with a wrong start or size)", (void *)lo, (void *)hi, (void *)extents[i].lo, (void *)extents[i].hi); }
      }
      if (!inside && n_extents < 4096) { extents[n_extents].lo = lo; extents[n_extents].hi = lo + pow2_class(sz); n_extents++; }
    }
    hent_t * h = hfind(hs, hi, 1);
    if (h->state == 2 && h->last_size != sz) { ulk(); mt_fail("ledger: block released as a %zu-byte stack handed out again as a %zu-byte stack (wrong size class on release)", h->last_size, sz); }
    if (size == 0) {
      if (h->state == 0) fresh_stack++;
      if (++owned_stack_def > max_owned_stack) max_owned_stack = owned_stack_def;
    }
    if (h->state == 2 && h->poisoned && size == 0) {
      unsigned char * p = (unsigned char *)hi - 16 - POISON_LEN;
      for (int i = 0; i < POISON_LEN; i++) if (p[i] != POISON) { ulk(); mt_fail("ledger: stack %p was written after it had been released (offset %d below the top)", (void *)hi, POISON_LEN - i); }
    }
    lthread_t * e = (rank >= 0 && rank < MV_MAXP) ? pending[rank] : 0;
    if (!e || e->stack_state) { ulk(); mt_fail("ledger: stack allocation without a preceding record allocation on worker %d", rank); }
    /* finished threads leave their stack by a jump, so ASan's shadow for old frames is stale */
    UNPOISON(lo, (size_t)(hi - lo));
    e->lo = lo; e->hi = hi; e->stack_state = 1;
    h->state = 1; h->e = e; h->poisoned = 0;
    if (n_owned_stacks >= 8192) { ulk(); mt_reject("ledger: too many live stacks"); }
    owned_stacks[n_owned_stacks++] = e;
  }
  ulk();
}

static void on_free(int kind, void * ptr, size_t size, int rank) {
  char probe;
  mt_freelist_owner_check(rank, 1, kind);
  lk();
  if (kind == MVA_DESC) {
    hent_t * h = hfind(hd, ptr, 0);
    if (!h || h->state != 1) { ulk(); mt_fail("ledger: thread record %p released but not owned (released twice, or never allocated)", ptr); }
    lthread_t * e = h->e;
    if (e->user) {
      if (!e->ended) { ulk(); mt_fail("ledger: record of a thread whose function has not finished was released"); }
      if (!e->reap_started) { ulk(); mt_fail("ledger: record released although the thread was neither joined nor detached"); }
    }
    if (e->stack_state == 1) { ulk(); mt_fail("ledger: record %p released while the thread's stack is still in use", ptr); }
    e->desc_state = 2; e->desc_frees++; e->desc_free_rank = rank;
    if (rank != e->alloc_rank) cross_frees++;
    h->state = 2; h->e = 0;
    owned_desc--;
  } else {
    char * hi = (char *)ptr + 16;
    hent_t * h = hfind(hs, hi, 0);
    if (!h || h->state != 1) { ulk(); mt_fail("ledger: stack %p released but not owned (released twice?)", ptr); }
    lthread_t * e = h->e;
    if (&probe >= e->lo && &probe < e->hi) { ulk(); mt_fail("ledger: stack [%p,%p) released while the releasing code is still running on it (before the final switch-away)", (void *)e->lo, (void *)e->hi); }
    size_t sz = size ? size : def_stack;
    if ((size_t)(e->hi - e->lo) != sz) { ulk(); mt_fail("ledger: stack released with size %zu, allocated with %zu", sz, (size_t)(e->hi - e->lo)); }
    UNPOISON(e->lo, (size_t)(e->hi - e->lo));
    e->stack_state = 2; e->stack_frees++; e->stack_free_rank = rank;
    if (rank != e->alloc_rank) cross_frees++;
    for (int i = 0; i < n_owned_stacks; i++) if (owned_stacks[i] == e) { owned_stacks[i] = owned_stacks[--n_owned_stacks]; break; }
    h->state = 2; h->e = 0; h->last_size = sz;
    if (size == 0) {
      owned_stack_def--;
      if (poison_on) { memset((unsigned char *)hi - 16 - POISON_LEN, POISON, POISON_LEN); h->poisoned = 1; }
    }
  }
  ulk();
}

extern void (*volatile myth_verif_alloc_fn)(int, void *, size_t, int);
extern void (*volatile myth_verif_free_fn)(int, void *, size_t, int);

void ledger_install(size_t default_stack_size) {
  def_stack = default_stack_size;
  myth_verif_alloc_fn = on_alloc;
  myth_verif_free_fn = on_free;
}
void ledger_set_poison(int on) { poison_on = on; }
lthread_t * ledger_of_desc(void * desc) {
  lk(); hent_t * h = hfind(hd, desc, 0); lthread_t * e = (h && h->state == 1) ? h->e : 0; ulk(); return e;
}
lthread_t * ledger_self(void * d) { return ledger_of_desc(d); }
void ledger_counts(long * fd, long * fs, long * md, long * ms, long * cf, long * rc) {
  *fd = fresh_desc; *fs = fresh_stack; *md = max_owned_desc; *ms = max_owned_stack; *cf = cross_frees; *rc = recycled;
}
int ledger_nthreads(void) { return nlt; }
lthread_t * ledger_thread(int i) { return &lt[i]; }
