/* C17 (1) -- myth_create_join_many_ex / myth_create_join_various_ex equal the sequential loop.
 *
 * One byte arena with guard bytes holds args, results, ids, attrs and funcs in a generated layout:
 * separate arrays with generated strides (>= element size, 0 for a shared arg / shared function
 * slot) or interleaved fields of one struct array; each of ids / attrs / results NULL or not;
 * per-item attributes with generated stack sizes; n in {0,1,2,3,odd,2^k-1,2^k,2^k+1,..,300}.
 * Oracle: per-index invocation counter == 1 with exactly the argument address args + i*arg_stride;
 * results and ids written exactly at their strided slots (ids non-NULL; not required distinct);
 * every other arena byte untouched; all counters complete when the call returns; n == 0 touches
 * nothing; identical to the sequential reference loop.
 */
#include "scen_util.h"

#define ARENA (1 << 17)
#define GUARD 0xA5
static uint8_t arena[ARENA], ref[ARENA];
static struct {
  long n; int various, layout; size_t arg_stride, res_stride, id_stride, attr_stride, func_stride;
  int have_res, have_ids, have_attrs;
  size_t off_args, off_res, off_ids, off_attrs, off_funcs;
  volatile int cnt[512]; volatile int which[512]; volatile int shared_calls, bad_arg;
} B;
static const long nvals[] = { 0, 1, 2, 3, 4, 5, 7, 8, 9, 15, 16, 17, 31, 32, 33, 63, 64, 65, 100, 127, 128, 129, 255, 256, 257, 300 };

static void * value_of(long i, int fk) { return (void *)(uintptr_t)(0xC000 + i * 4 + fk); }
/* nested use: some items run a bulk fork-join of their own, with another function, while the outer one is in flight */
static int g_nest; static long inner_arg[512][4]; static void * inner_res[512][4]; static volatile int inner_cnt[512][4]; static volatile long inner_calls;
static void * inner_f(void * a) {
  long * p = a; long d = p - &inner_arg[0][0];
  if (d < 0 || d >= 512 * 4) { B.bad_arg = 1; return 0; }
  __sync_fetch_and_add(&inner_cnt[d / 4][d % 4], 1); __sync_fetch_and_add(&inner_calls, 1);
  if (d & 1) myth_yield();
  return (void *)(uintptr_t)(0xD000 + d);
}
static void run_inner(long i) {
  int m = 1 + (int)(i % 4);
  int rc = myth_create_join_many_ex(0, 0, inner_f, &inner_arg[i][0], &inner_res[i][0], 0, 0, sizeof(long), sizeof(void *), m);
  if (rc != 0) mt_fail("nested create_join_many returned %d", rc);
  for (int j = 0; j < m; j++) {
    if (inner_cnt[i][j] != 1) mt_fail("nested create_join_many inside item %ld: inner item %d invoked %d times when the call returned", i, j, inner_cnt[i][j]);
    if (inner_res[i][j] != (void *)(uintptr_t)(0xD000 + i * 4 + j)) mt_fail("nested create_join_many inside item %ld: result %d is %p", i, j, inner_res[i][j]);
  }
}
static void * generic(void * a, int fk) {
  uint8_t * p = a;
  mv_progress();
  if (B.arg_stride == 0) {
    if (p != arena + B.off_args) B.bad_arg = 1;
    __sync_fetch_and_add(&B.shared_calls, 1);
    return value_of(0, fk);
  }
  long d = p - (arena + B.off_args);
  if (d < 0 || d % (long)B.arg_stride || d / (long)B.arg_stride >= B.n) { B.bad_arg = 1; return 0; }
  long i = d / (long)B.arg_stride;
  if (i < 512) { __sync_fetch_and_add(&B.cnt[i], 1); B.which[i] = fk; }
  if (g_nest && i < 512 && (i % 5) == 2) run_inner(i);
  if (i & 1) myth_yield();
  return value_of(i, fk);
}
static void * f0(void * a) { return generic(a, 0); }
static void * f1(void * a) { return generic(a, 1); }
static void * f2(void * a) { return generic(a, 2); }
static void * f3(void * a) { return generic(a, 3); }
static myth_func_t fns[4] = { f0, f1, f2, f3 };
static int fn_of(long i) { return (int)((i * 7 + 3) % 4); }

void scen_c17(mt_case * c) {
  mt_engine_cfg e; rd_t * r = &c->prog;
  mt_decode_engine(c, &e, 8);
  B.n = nvals[rd_below(r, sizeof nvals / sizeof nvals[0])];
  if (rd_below(r, 3) == 0) B.n = rd_range(r, 0, 40);
  B.various = (int)rd_below(r, 2); B.layout = (int)rd_below(r, 2);
  B.have_res = rd_below(r, 4) != 0; B.have_ids = rd_below(r, 3) != 0; B.have_attrs = rd_below(r, 3) == 0;
  size_t asz = sizeof(myth_thread_attr_t);
  if (B.layout == 1) {
    /* interleaved: struct { arg[8+pad]; result; id; attr; func; } */
    size_t pad = (size_t)rd_below(r, 4) * 8;
    size_t st = 8 + pad + 8 + 8 + asz + 8; st = (st + 7) & ~(size_t)7;
    B.arg_stride = B.res_stride = B.id_stride = B.attr_stride = st; B.func_stride = st;
    B.off_args = 64; B.off_res = 64 + 8 + pad; B.off_ids = B.off_res + 8; B.off_attrs = B.off_ids + 8; B.off_funcs = B.off_attrs + asz;
  } else {
    B.arg_stride = (size_t[]){ 0, 1, 8, 24, 40 }[rd_below(r, 5)];
    B.res_stride = (size_t[]){ 8, 16, 40 }[rd_below(r, 3)];
    B.id_stride = (size_t[]){ 8, 24 }[rd_below(r, 2)];
    B.attr_stride = asz + (size_t)rd_below(r, 3) * 8;
    B.func_stride = (size_t[]){ 0, 8, 16 }[rd_below(r, 3)];
    size_t o = 64;
    B.off_args = o; o += (B.arg_stride ? B.arg_stride : 8) * (size_t)(B.n + 1) + 64;
    B.off_res = o; o += B.res_stride * (size_t)(B.n + 1) + 64;
    B.off_ids = o; o += B.id_stride * (size_t)(B.n + 1) + 64;
    B.off_attrs = o; o += B.attr_stride * (size_t)(B.n + 1) + 64;
    B.off_funcs = o; o += (B.func_stride ? B.func_stride : 8) * (size_t)(B.n + 1) + 64;
    if (o > ARENA) mt_reject("arena too small");
  }
  if (!B.various) B.func_stride = 0;
  g_nest = B.arg_stride != 0 && rd_below(r, 3) == 0;
  mt_desc("C17 create_join_%s n=%ld layout=%s strides: arg=%zu result=%zu id=%zu attr=%zu func=%zu results=%s ids=%s attrs=%s\n",
          B.various ? "various" : "many", B.n, B.layout ? "interleaved struct" : "separate arrays", B.arg_stride, B.res_stride, B.id_stride, B.attr_stride, B.func_stride,
          B.have_res ? "yes" : "NULL", B.have_ids ? "yes" : "NULL", B.have_attrs ? "yes" : "NULL");
  if (g_nest) mt_desc(" items 2, 7, 12, ... run a nested create_join_many (1..4 items, another function) of their own\n");
  mt_hash(c->prog.p, c->prog.pos);
  mt_allow_prelude = 1;
  mt_lib_start(c, &e, 0);

  memset(arena, GUARD, sizeof arena);
  /* inputs: attrs and funcs (arguments are addresses only) */
  static const size_t stk[] = { 0, 16384, 20000, 65536 };
  for (long i = 0; i < B.n; i++) {
    if (B.have_attrs) {
      myth_thread_attr_t * at = (myth_thread_attr_t *)(arena + B.off_attrs + (size_t)i * B.attr_stride);
      myth_thread_attr_init(at);
      size_t s = stk[(i * 5 + 1) % 4]; if (s) myth_thread_attr_setstacksize(at, s); else at->stacksize = 0;
      at->child_first = (int)((i / 3) & 1) ^ 1;
    }
    if (B.various && (B.func_stride || i == 0)) {
      myth_func_t fn = fns[B.func_stride ? fn_of(i) : 2];
      memcpy(arena + B.off_funcs + (size_t)i * B.func_stride, &fn, sizeof fn);
    }
  }
  memcpy(ref, arena, sizeof arena);
  /* sequential reference: what the loop `results[i] = f_i(args + i*stride)` writes (ids: any non-NULL handle) */
  for (long i = 0; i < B.n; i++) {
    int fk = B.various ? (B.func_stride ? fn_of(i) : 2) : 1;
    void * v = value_of(B.arg_stride ? i : 0, fk);
    if (B.have_res) memcpy(ref + B.off_res + (size_t)i * B.res_stride, &v, 8);
  }
  int rc;
  void * res = B.have_res ? arena + B.off_res : 0;
  myth_thread_t * ids = B.have_ids ? (myth_thread_t *)(arena + B.off_ids) : 0;
  myth_thread_attr_t * attrs = B.have_attrs ? (myth_thread_attr_t *)(arena + B.off_attrs) : 0;
  if (B.various)
    rc = myth_create_join_various_ex(ids, attrs, (myth_func_t *)(arena + B.off_funcs), arena + B.off_args, res,
                                     B.id_stride, B.attr_stride, B.func_stride, B.arg_stride, B.res_stride, B.n);
  else
    rc = myth_create_join_many_ex(ids, attrs, f1, arena + B.off_args, res, B.id_stride, B.attr_stride, B.arg_stride, B.res_stride, B.n);
  /* everything must be complete at return */
  if (rc != 0) mt_fail("returned %d", rc);
  if (B.bad_arg) mt_fail("a function received an argument that is not args + i*arg_stride for any i in [0,n)");
  if (B.arg_stride == 0) { if (B.shared_calls != B.n) mt_fail("shared argument: function invoked %d times, n=%ld", B.shared_calls, B.n); }
  else for (long i = 0; i < B.n && i < 512; i++) {
    if (B.cnt[i] != 1) mt_fail("f_%ld invoked %d times when the call returned (n=%ld)", i, B.cnt[i], B.n);
    int fk = B.various ? (B.func_stride ? fn_of(i) : 2) : 1;
    if (B.which[i] != fk) mt_fail("index %ld executed function %d, expected %d", i, B.which[i], fk);
  }
  mt_lib_finish();
  /* ids: exactly the strided slots were overwritten with a non-NULL handle; blank them for the comparison */
  if (B.have_ids) for (long i = 0; i < B.n; i++) {
    uint8_t * slot = arena + B.off_ids + (size_t)i * B.id_stride; void * h; memcpy(&h, slot, 8);
    if (h == 0) mt_fail("ids[%ld] is NULL after the call", i);
    if ((uintptr_t)h == 0xA5A5A5A5A5A5A5A5ULL) mt_fail("ids[%ld] was not written", i);
    memset(slot, GUARD, 8);
    memset(ref + B.off_ids + (size_t)i * B.id_stride, GUARD, 8);
  }
  for (size_t k = 0; k < ARENA; k++) if (arena[k] != ref[k]) {
    const char * what = "guard bytes";
    if (B.have_res && k >= B.off_res && k < B.off_res + B.res_stride * (size_t)(B.n + 1)) what = "results area";
    mt_fail("arena differs from the sequential loop at offset %zu (%s): got %02x expected %02x (n=%ld)", k, what, arena[k], ref[k], B.n);
  }
  long steals = (long)HIT(MVP_Q_TAKE_D);
  mt_stat("n", B.n); mt_stat("steals", steals);
  mt_label(B.various ? "various" : "many"); mt_label(B.layout ? "interleaved" : "separate");
  if (B.n == 0) mt_label("n0"); if (B.arg_stride == 0) mt_label("shared_arg"); if (B.various && B.func_stride == 0) mt_label("shared_func_slot");
  if (!B.have_res) mt_label("results_NULL"); if (!B.have_ids) mt_label("ids_NULL"); if (B.have_attrs) mt_label("per_item_attrs"); if (steals) mt_label("stolen"); if (g_nest && inner_calls) mt_label("nested_bulk_call");
  mt_nontrivial(B.n >= 2 && (steals > 0 || B.layout == 1 || B.have_attrs));
}
