/* C17 (2) -- the TBB-like layer: every task handed to a task group has completed when wait returns
 * (any number of run() calls, more than the 8-entry inline list, closures of generated size, nested
 * groups, group reuse after wait); parallel_for calls the body exactly once for every index of its
 * range -- (first,last), (first,last,step), (first,last,step,grain) over int and long, range-based
 * with a local blocked range -- in particular not at all for an empty (or reversed) range.
 */
extern "C" {
#include "scen_util.h"
}
#include <mtbb/task_group.h>
#include <mtbb/parallel_for.h>

namespace {

struct Gen {
  int kind; long first, last, step, grain; int use_long;
  int runs, payload, nested, reuse;
};
Gen G;
volatile int cnt[4096];          /* per index / per task invocation counters */
volatile int badidx;
const long BASE = 1024;          /* index i is counted at cnt[i - G.first + BASE] */

template <int N> struct Payload { unsigned char b[N]; };

template <int N> void run_tasks(mtbb::task_group & tg, int from, int n, int nested) {
  for (int k = 0; k < n; k++) {
    Payload<N> p; for (int j = 0; j < N; j++) p.b[j] = (unsigned char)(from + k + j);
    int id = from + k;
    tg.run([p, id, nested]() {
      for (int j = 0; j < N; j++) if (p.b[j] != (unsigned char)(id + j)) { badidx = 1; }
      if (id & 1) myth_yield();
      if (nested && (id % 5) == 0) {
        mtbb::task_group inner;
        for (int q = 0; q < 3; q++) inner.run([id, q]() { __sync_fetch_and_add(&cnt[2048 + (id * 3 + q) % 2000], 1); });
        inner.wait();
        for (int q = 0; q < 3; q++) if (cnt[2048 + (id * 3 + q) % 2000] < 1) badidx = 2;
      }
      __sync_fetch_and_add(&cnt[id], 1);
      mv_progress();
    });
  }
}

struct BlockedRange {
  long b, e, g;
  BlockedRange(long b_, long e_, long g_) : b(b_), e(e_), g(g_) {}
  long begin() const { return b; }
  long end() const { return e; }
  long grainsize() const { return g; }
  bool empty() const { return !(b < e); }
  bool is_divisible() const { return g < e - b; }
};
struct RangeBody {
  void operator()(const BlockedRange & r) const {
    for (long i = r.begin(); i < r.end(); i++) { long k = i - G.first + BASE; if (k < 0 || k >= 4096) badidx = 3; else __sync_fetch_and_add(&cnt[k], 1); }
    mv_progress();
  }
};

inline void grain_for(long, long, long, long) { }
inline void grain_for(int first, int last, int step, int grain) {
  mtbb::parallel_for(first, last, step, grain, [step](int b, int e) {
    for (int i = b; i < e; i += step) { long k = (long)i - G.first + BASE; if (k < 0 || k >= 4096) badidx = 3; else __sync_fetch_and_add(&cnt[k], 1); }
    mv_progress(); });
}
template <typename Index> void do_parallel_for() {
  Index first = (Index)G.first, last = (Index)G.last, step = (Index)G.step, grain = (Index)G.grain;
  auto body1 = [](Index i) { long k = (long)i - G.first + BASE; if (k < 0 || k >= 4096) badidx = 3; else __sync_fetch_and_add(&cnt[k], 1); if (i & 1) myth_yield(); mv_progress(); };
  if (G.kind == 1) mtbb::parallel_for(first, last, body1);
  else if (G.kind == 2) mtbb::parallel_for(first, last, step, body1);
  else grain_for(first, last, step, grain);
}

/* a correct parallel_for over n indices needs at most n-1 tasks (binary splitting); unbounded task
   creation is how non-termination on an empty range shows up long before any budget is hit */
long create_limit = -1; volatile long creates;
void create_observer(int id, int me) {
  (void)me;
  if (id == MVP_CREATE_CB_A || id == MVP_CREATE_A) {
    long n = __sync_add_and_fetch(&creates, 1);
    if (create_limit >= 0 && n > create_limit)
      mt_fail("parallel_for over [%ld,%ld) step %ld (%s) created more than %ld tasks: it does not terminate / is not the sequential loop", G.first, G.last, G.step,
              G.last <= G.first ? "an empty range" : "non-empty", create_limit);
  }
}
int known(const char * id) { const char * k = getenv("MT_KNOWN"); return k && strstr(k, id); }
}

extern "C" void scen_c17_mtbb(mt_case * c) {
  mt_engine_cfg e; rd_t * r = &c->prog;
  mt_decode_engine(c, &e, 8);
  G.kind = (int)rd_below(r, 5);
  G.use_long = (int)rd_below(r, 2);
  static const long firsts[] = { 0, 1, -3, 100, -1000000 };
  G.first = firsts[rd_below(r, 5)];
  int lenk = (int)rd_below(r, 8);
  long len = lenk == 0 ? 0 : lenk == 1 ? 1 : lenk == 2 ? -1 : lenk == 3 ? -7 : lenk == 4 ? 2 : (long)rd_range(r, 3, 600);
  G.last = G.first + len;
  G.step = rd_range(r, 1, 7); G.grain = rd_range(r, 1, 9);
  if (G.kind == 1 || G.kind == 4) G.step = 1;      /* these overloads have no step */
  G.runs = rd_range(r, 0, 40); G.payload = (int)rd_below(r, 4); G.nested = (int)rd_below(r, 2); G.reuse = (int)rd_below(r, 2);
  int empty_range = (len <= 0);
  if (G.kind == 0) mt_desc("C17 mtbb task_group: %d run() calls, closure payload class %d, nested=%d, reuse after wait=%d\n", G.runs, G.payload, G.nested, G.reuse);
  else mt_desc("C17 mtbb parallel_for kind=%s Index=%s first=%ld last=%ld step=%ld grain=%ld\n",
               (const char *[]){ "", "(first,last)", "(first,last,step)", "(first,last,step,grain)", "range-based" }[G.kind], G.use_long ? "long" : "int", G.first, G.last, G.step, G.grain);
  if ((G.kind == 1 || G.kind == 2) && empty_range && known("F7")) { mt_known("F7"); mt_reject("index parallel_for over an empty range: known finding F7"); }
  mt_hash(c->prog.p, c->prog.pos);
  mt_allow_prelude = 1;
  mt_lib_start(c, &e, 0);
  if (G.kind != 0) { long nidx = len > 0 ? (len + G.step - 1) / G.step : 0; create_limit = 4 * nidx + 16; mv_set_point_observer(create_observer); }
  long expect_lo = 0, expect_n = 0;
  if (G.kind == 0) {
    mtbb::task_group tg;
    for (int round = 0; round <= G.reuse; round++) {
      int from = round * 64;
      switch (G.payload) { case 0: run_tasks<1>(tg, from, G.runs, G.nested); break; case 1: run_tasks<64>(tg, from, G.runs, G.nested); break;
                           case 2: run_tasks<200>(tg, from, G.runs, G.nested); break; default: run_tasks<240>(tg, from, G.runs, G.nested); }
      tg.wait();
      for (int k = 0; k < 64; k++) { int want = k < G.runs ? 1 : 0; if (cnt[from + k] != want) mt_fail("task %d of the group had run %d times when wait() returned (expected %d; %d run() calls)", k, cnt[from + k], want, G.runs); }
    }
  } else if (G.kind == 4) {
    BlockedRange br(G.first, G.last, G.grain); RangeBody body;
    mtbb::parallel_for(br, body);
    G.step = 1;
  } else {
    /* the grain-size overload only compiles for Index = int (literal 0 in the header makes deduction fail for long) */
    if (G.use_long && G.kind != 3) do_parallel_for<long>(); else do_parallel_for<int>();
  }
  mt_lib_finish();
  if (badidx) mt_fail("body called with an index outside the range / corrupted closure (code %d)", badidx);
  if (G.kind != 0) {
    for (long k = 0; k < 2048; k++) {
      long i = k - BASE;                /* offset from first */
      int want = (i >= 0 && i < len && (i % G.step) == 0) ? 1 : 0;
      if (cnt[k] != want) mt_fail("parallel_for body called %d times for index %ld (expected %d) in range [%ld,%ld) step %ld", cnt[k], G.first + i, want, G.first, G.last, G.step);
      if (want) expect_n++;
    }
    (void)expect_lo;
  }
  long steals = (long)HIT(MVP_Q_TAKE_D);
  mt_stat("steals", steals); mt_stat("indices", expect_n);
  mt_label((const char *[]){ "task_group", "pf_first_last", "pf_step", "pf_grain", "pf_range" }[G.kind]);
  if (G.kind == 0 && G.runs > 8) mt_label("more_than_inline_capacity"); if (G.kind == 0 && G.runs == 0) mt_label("zero_runs");
  if (G.kind != 0 && empty_range) mt_label("empty_range"); if (G.kind != 0 && len == 1) mt_label("single_element"); if (steals) mt_label("stolen");
  mt_nontrivial((G.kind == 0 && G.runs > 8) || (G.kind != 0 && (empty_range || len == 1 || steals > 0)));
}
