#include "common.h"
void scen_c01(mt_case *);
void scen_c04(mt_case *);
void scen_c05(mt_case *);
const mt_scenario mt_scenarios[] = {
  { 1, "C01 create/join", scen_c01 },
  { 4, "C04 mutex", scen_c04 },
  { 5, "C05 condition variables", scen_c05 },
};
const int mt_n_scenarios = sizeof mt_scenarios / sizeof mt_scenarios[0];
