/* C10 -- thread-specific data is private to (thread, key) and follows the thread;
 * C11 -- destructors run exactly once with the right value.
 *
 * Setup: create n0 keys (n0 from {1,2,16,17,64,65,256,257,1000,1024}) so that every index range of
 * the 4-ary tree with 16-entry leaves is reachable, a generated subset with destructors (8 distinct
 * destructor functions), then delete a generated subset (sparse sets that leave earlier branches
 * empty); optionally exhaust the table (the 1025th create must fail).
 * Threads (1..4) run scripts of SET / GET / YIELD / KEY_CREATE / KEY_DELETE(own) / out-of-range
 * SET and GET, and terminate by return, myth_exit, or myth_testcancel after a cancel request.
 * C10 oracle: reference model = dict per (thread, key) + set of live keys: every get equals the
 * model (never stored => NULL; a read under a key index that was re-created since the thread
 * stored is "don't care"); keys returned by create are pairwise distinct while live; out-of-range
 * set => EINVAL, get => NULL.  Concurrent sub-mode: GATEd threads on distinct workers create and
 * delete keys under generated schedules; a returned key must not currently be owned.
 * C11 oracle: log of destructor calls: for every live key with a destructor and a non-NULL value
 * held at exit exactly one call of that key's destructor function with that value; no call with
 * another key's value; no call for a key without destructor; calls with NULL are ignored.
 */
#include "scen_util.h"
#include <pthread.h>

#define NKEYS 1024
#define ND 8
enum { T_SET, T_GET, T_YIELD, T_KCREATE, T_KDELETE, T_SET_OOR, T_GET_OOR, T_N };
enum { E_RETURN, E_EXIT, E_CANCEL };
typedef struct { int kind, key, dt, ref; } tlop_t;   /* ref >= 0: SET / GET address the key created by this thread's op number ref */
#define MAXTL 40
static struct {
  int n0, NT, exhaust, gens; int nop[4]; tlop_t op[4][MAXTL]; int exitmode[4];
} P;

/* model */
static int live[NKEYS], dtor_of[NKEYS], incarnation[NKEYS], owner_thread[NKEYS];
static struct { void * val; int inc; int set; } mval[4][NKEYS];
static int version_ctr;
static int created[NKEYS];     /* creation order -> key actually returned (normally the identity) */
/* destructor log */
typedef struct { int fn; void * val; } dlog_t;
static dlog_t dlog[8192]; static volatile int ndlog;
static void dlog_add(int fn, void * v) { int i = __sync_fetch_and_add(&ndlog, 1); if (i < 8192) { dlog[i].fn = fn; dlog[i].val = v; } }
#define DT(n) static void dtor##n(void * v) { dlog_add(n, v); }
DT(0) DT(1) DT(2) DT(3) DT(4) DT(5) DT(6) DT(7)
static void (* const dfn[ND])(void *) = { dtor0, dtor1, dtor2, dtor3, dtor4, dtor5, dtor6, dtor7 };

static void * mkval(int t, int k) { return (void *)(uintptr_t)(0x100000000ULL + ((uint64_t)t << 28) + ((uint64_t)k << 12) + (uint64_t)(++version_ctr & 0xfff)); }
static int val_thread(void * v) { return (int)(((uintptr_t)v >> 28) & 0xf); }
static int val_key(void * v) { return (int)(((uintptr_t)v >> 12) & 0xffff); }

static long st_get, st_set, st_oor, st_kc, st_kd, st_migr, st_high, st_sparse, st_set_own;
static int expected_at_exit[4][NKEYS]; static void * expected_val[4][NKEYS];

static void model_create(int key, int dt, int by) {
  if (key < 0 || key >= NKEYS) mt_fail("key_create returned key %d outside [0,%d)", key, NKEYS);
  if (live[key]) mt_fail("key_create returned key %d which is still live (created by thread %d): keys are not pairwise distinct", key, owner_thread[key]);
  live[key] = 1; dtor_of[key] = dt; incarnation[key]++; owner_thread[key] = by;
}

static void * tbody(void * a) {
  int t = (int)(intptr_t)a;
  int w0 = myth_get_worker_num();
  for (int i = 0; i < P.nop[t]; i++) {
    tlop_t * o = &P.op[t][i];
    switch (o->kind) {
    case T_SET: {
      int key = o->ref >= 0 ? P.op[t][o->ref].key : created[o->key];
      if (key < 0 || !live[key]) break;
      if (o->ref >= 0) st_set_own++;
      void * v = mkval(t, key);
      int rc = myth_setspecific(key, v);
      if (rc) mt_fail("setspecific(%d) returned %d", key, rc);
      mval[t][key].val = v; mval[t][key].inc = incarnation[key]; mval[t][key].set = 1; st_set++;
      if (key >= 16) st_high++;
      break; }
    case T_GET: {
      int key = o->ref >= 0 ? P.op[t][o->ref].key : created[o->key];
      if (key < 0 || !live[key]) break;
      void * v = myth_getspecific(key);
      st_get++;
      if (mval[t][key].set && mval[t][key].inc == incarnation[key]) {
        if (v != mval[t][key].val) mt_fail("thread %d key %d: getspecific returned %p, the thread stored %p", t, key, v, mval[t][key].val);
      } else if (!mval[t][key].set) {
        if (v != 0) {
          /* never stored by this thread under any incarnation */
          mt_fail("thread %d key %d: getspecific returned %p although the thread never stored under this key (value of thread %d key %d)", t, key, v, val_thread(v), val_key(v));
        }
      }
      break; }
    case T_YIELD: myth_yield(); break;
    case T_KCREATE: {
      myth_key_t k = -1;
      int rc = myth_key_create(&k, o->dt >= 0 ? dfn[o->dt] : 0);
      if (rc == 0) { model_create(k, o->dt, t); o->key = k; st_kc++; } else o->key = -1;
      break; }
    case T_KDELETE: {
      /* delete the key created by the op this one refers to (index in dt) */
      int k = P.op[t][o->dt].key;
      if (k < 0 || !live[k] || owner_thread[k] != t) break;
      live[k] = 0;   /* before the call: once the library has released the index another thread may be handed it at once */
      int rc = myth_key_delete(k);
      if (rc) mt_fail("key_delete(%d) returned %d for a live key", k, rc);
      P.op[t][o->dt].key = -1; st_kd++;
      break; }
    case T_SET_OOR: {
      int k = (int[]){ -1, NKEYS, NKEYS + 1, -1000, 0x7fffffff, 4096 }[o->key % 6];
      int rc = myth_setspecific(k, (void *)0x1234);
      if (rc != EINVAL) mt_fail("setspecific with out-of-range key %d returned %d, expected EINVAL", k, rc);
      st_oor++; break; }
    case T_GET_OOR: {
      int k = (int[]){ -1, NKEYS, NKEYS + 1, -1000, 0x7fffffff, 4096 }[o->key % 6];
      if (myth_getspecific(k) != 0) mt_fail("getspecific with out-of-range key %d returned a value", k);
      st_oor++; break; }
    }
    op_done();
  }
  if (myth_get_worker_num() != w0) __sync_fetch_and_add(&st_migr, 1);
  /* what must be destructed when this thread terminates */
  for (int k = 0; k < NKEYS; k++) {
    expected_at_exit[t][k] = 0;
    if (mval[t][k].set && live[k] && mval[t][k].inc == incarnation[k] && dtor_of[k] >= 0) { expected_at_exit[t][k] = 1; expected_val[t][k] = mval[t][k].val; }
    else if (mval[t][k].set && !(live[k] && mval[t][k].inc == incarnation[k])) expected_at_exit[t][k] = -1;   /* key deleted / re-created meanwhile: unspecified */
  }
  if (P.exitmode[t] == E_EXIT) myth_exit((void *)(intptr_t)(t + 1));
  if (P.exitmode[t] == E_CANCEL) { Z0(myth_setcancelstate(PTHREAD_CANCEL_ENABLE, 0)); Z0(myth_cancel(myth_self())); myth_testcancel(); mt_fail("myth_testcancel returned although cancellation was requested"); }
  return (void *)(intptr_t)(t + 1);
}

static void run_tls(mt_case * c, int prop) {
  mt_engine_cfg e; rd_t * r = &c->prog;
  mt_decode_engine(c, &e, 8);
  static const int n0s[] = { 1, 2, 16, 17, 64, 65, 256, 257, 1000, 1024 };
  P.n0 = n0s[rd_below(r, 10)];
  P.exhaust = (P.n0 == 1024) && rd_below(r, 2);
  int dt_mode = (int)rd_below(r, 4);        /* 0 none, 1 all, 2 alternate, 3 generated */
  int del_mode = (int)rd_below(r, 5);       /* 0 none, 1 all but last, 2 all but a few high, 3 random half, 4 low branch emptied */
  unsigned dseed = rd_u16(r);
  P.NT = rd_range(r, 1, 4);
  P.gens = rd_range(r, 1, 3);      /* thread generations: later ones reuse the records of earlier ones */
  /* key universe */
  static int want_dt[NKEYS], want_del[NKEYS];
  unsigned x = dseed * 2654435761u + 1;
  for (int k = 0; k < P.n0; k++) {
    x = x * 1664525u + 1013904223u;
    want_dt[k] = dt_mode == 0 ? -1 : dt_mode == 1 ? (k % ND) : dt_mode == 2 ? ((k & 1) ? (k % ND) : -1) : (((x >> 16) & 3) ? (int)((x >> 20) % ND) : -1);
    x = x * 1664525u + 1013904223u;
    want_del[k] = del_mode == 0 ? 0 : del_mode == 1 ? (k != P.n0 - 1) : del_mode == 2 ? !((x >> 16) % 64 == 0 || k == P.n0 - 1) : del_mode == 3 ? (int)((x >> 16) & 1) : (k < P.n0 / 2);
  }
  int nlive = 0; static int livekeys[NKEYS];
  for (int k = 0; k < P.n0; k++) if (!want_del[k]) livekeys[nlive++] = k;
  if (nlive == 0) { want_del[P.n0 - 1] = 0; livekeys[nlive++] = P.n0 - 1; }
  mt_desc("C%d tls: create %d keys (destructor mode %d), delete mode %d -> %d live keys%s; first live %d last live %d; %d thread generation(s)\n", prop, P.n0, dt_mode, del_mode, nlive, P.exhaust ? ", then exhaust the table" : "", livekeys[0], livekeys[nlive - 1], P.gens);
  for (int t = 0; t < P.NT; t++) {
    P.nop[t] = rd_range(r, 1, c->tier ? MAXTL : 20); P.exitmode[t] = (int)rd_below(r, 3);
    mt_desc(" t%d(%s):", t, (const char *[]){ "return", "exit", "cancel" }[P.exitmode[t]]);
    int created_ops[MAXTL], ncr = 0;
    for (int i = 0; i < P.nop[t]; i++) {
      tlop_t * o = &P.op[t][i]; unsigned b = rd_u8(r);
      int kind = (int[]){ T_SET, T_SET, T_GET, T_GET, T_YIELD, T_SET, T_GET, T_KCREATE, T_KDELETE, T_SET_OOR, T_GET_OOR, T_SET }[b % 12];
      if (prop == 11 && (kind == T_KDELETE || kind == T_GET_OOR || kind == T_SET_OOR)) kind = T_SET;
      o->kind = kind; o->dt = -1; o->ref = -1;
      /* key choice biased to the boundaries of the live set */
      unsigned kb = rd_u16(r);
      int idx = (kb & 3) == 0 ? 0 : (kb & 3) == 1 ? nlive - 1 : (int)((kb >> 2) % (unsigned)nlive);
      o->key = livekeys[idx];
      if ((kind == T_SET || kind == T_GET) && ncr && (kb & 0xc000) == 0xc000) o->ref = created_ops[(kb >> 4) % (unsigned)ncr];   /* a key this thread created itself (possibly on a recycled index) */
      if (kind == T_KCREATE) { o->dt = (kb & 4) ? (int)((kb >> 3) % ND) : -1; created_ops[ncr++] = i; o->key = -1; }
      if (kind == T_KDELETE) { if (!ncr) { o->kind = T_YIELD; } else o->dt = created_ops[(kb >> 2) % (unsigned)ncr]; }
      if (kind == T_SET_OOR || kind == T_GET_OOR) o->key = (int)(kb >> 2);
      if (i < 24) mt_desc(" %s%d", (const char *[]){ "set", "get", "y", "kcreate", "kdelete", "setOOR", "getOOR" }[o->kind], o->kind == T_KCREATE || o->kind == T_KDELETE ? o->dt : o->key);
    }
    mt_desc("\n");
  }
  mt_hash(c->prog.p, c->prog.pos);
  mt_lib_start(c, &e, 0);
  for (int k = 0; k < NKEYS; k++) { dtor_of[k] = -1; }
  /* setup by the main thread */
  for (int k = 0; k < P.n0; k++) {
    myth_key_t key = -1;
    int rc = myth_key_create(&key, want_dt[k] >= 0 ? dfn[want_dt[k]] : 0);
    if (rc) mt_fail("key_create #%d failed with %d although only %d keys exist", k, rc, k);
    model_create(key, want_dt[k], 9);
    created[k] = key;
  }
  if (P.exhaust) {
    myth_key_t key = -1;
    if (myth_key_create(&key, 0) == 0) mt_fail("the 1025th key_create succeeded (returned %d)", key);
  }
  for (int k = 0; k < P.n0; k++) if (want_del[k]) { if (myth_key_delete(created[k])) mt_fail("key_delete(%d) failed", created[k]); live[created[k]] = 0; }
  for (int i = 0; i < nlive; i++) livekeys[i] = created[livekeys[i]];
  if (livekeys[0] >= 16) st_sparse = 1;
  mv_progress();
  long calls = 0, nullcalls = 0, expected = 0;
  static tlop_t op_saved[4][MAXTL];
  memcpy(op_saved, P.op, sizeof op_saved);
  for (int g = 0; g < P.gens; g++) {
    static int seen[4][NKEYS];
    memset(seen, 0, sizeof seen); memset(mval, 0, sizeof mval); memset(expected_at_exit, 0, sizeof expected_at_exit);
    memcpy(P.op, op_saved, sizeof op_saved);
    int log0 = ndlog;
    myth_thread_t th[4];
    for (int t = 0; t < P.NT; t++) Z0(mt_create(&th[t], tbody, (void *)(intptr_t)t));
    for (int t = 0; t < P.NT; t++) {
      void * rv = 0; Z0(myth_join(th[t], &rv)); mv_progress();
      if (P.exitmode[t] != E_CANCEL && rv != (void *)(intptr_t)(t + 1)) mt_fail("thread %d join value %p", t, rv);
    }
    /* main thread reads: it never stored anything */
    for (int i = 0; i < nlive && i < 64; i++) if (live[livekeys[i]] && myth_getspecific(livekeys[i]) != 0) mt_fail("main thread reads a value under key %d it never stored", livekeys[i]);
    /* destructor log of this generation vs model */
    int n = ndlog < 8192 ? ndlog : 8192;
    for (int i = log0; i < n; i++) {
      void * v = dlog[i].val;
      if (!v) { nullcalls++; continue; }
      calls++;
      int t = val_thread(v), k = val_key(v);
      if (t < 0 || t >= P.NT || k < 0 || k >= NKEYS || !mval[t][k].set) mt_fail("destructor %d called with %p which is no value a thread of this generation stored", dlog[i].fn, v);
      if (expected_at_exit[t][k] == -1) continue;                 /* key deleted / re-created while the value was held: unspecified */
      if (expected_at_exit[t][k] == 0) mt_fail("destructor %d called with the value of thread %d key %d, but that key has no destructor / is not live", dlog[i].fn, t, k);
      if (v != expected_val[t][k]) mt_fail("destructor called with a stale value %p of thread %d key %d (last stored %p)", v, t, k, expected_val[t][k]);
      if (dlog[i].fn != dtor_of[k]) mt_fail("value of thread %d key %d was passed to destructor %d, the key was created with destructor %d (another key's destructor)", t, k, dlog[i].fn, dtor_of[k]);
      if (++seen[t][k] > 1) mt_fail("destructor of key %d called twice for thread %d", k, t);
    }
    for (int t = 0; t < P.NT; t++) for (int k = 0; k < NKEYS; k++) if (expected_at_exit[t][k] == 1) {
      expected++;
      if (seen[t][k] != 1) mt_fail("thread %d terminated (%s) holding %p under key %d (destructor %d) but the destructor was called %d times", t, (const char *[]){ "return", "exit", "cancel" }[P.exitmode[t]], expected_val[t][k], k, dtor_of[k], seen[t][k]);
    }
    /* keys created by threads of this generation and still live are deleted before the next one */
    for (int k = 0; k < NKEYS; k++) if (live[k] && owner_thread[k] != 9) { if (myth_key_delete(k)) mt_fail("key_delete(%d) failed", k); live[k] = 0; }
  }
  mt_lib_finish();
  mt_stat("sets", st_set); mt_stat("gets", st_get); mt_stat("out_of_range", st_oor); mt_stat("key_creates", st_kc); mt_stat("key_deletes", st_kd);
  mt_stat("dtor_calls", calls); mt_stat("dtor_null_calls", nullcalls); mt_stat("dtor_expected", expected); mt_stat("sets_key_ge16", st_high); mt_stat("migrated", st_migr);
  if (st_high) mt_label("key_ge_16"); if (livekeys[nlive - 1] >= 256) mt_label("key_ge_256"); if (livekeys[nlive - 1] == 1023) mt_label("key_1023"); if (st_set_own) mt_label("set_on_key_created_in_script");
  if (st_sparse) mt_label("lower_branch_empty"); if (P.exhaust) mt_label("exhausted"); if (st_kd) mt_label("reuse_after_delete"); if (st_oor) mt_label("out_of_range");
  if (expected) mt_label("destructor_expected"); if (st_migr) mt_label("migrated"); if (P.gens > 1) mt_label("records_reused_by_later_threads");
  if (prop == 10) mt_nontrivial(st_get > 0 && (st_high > 0 || st_kd > 0 || st_migr > 0));
  else mt_nontrivial(expected > 0 && (st_high > 0));
}
void scen_c10(mt_case * c) { run_tls(c, 10); }
void scen_c11(mt_case * c) { run_tls(c, 11); }

/* ---------------- C10 concurrent key creation / deletion ---------------- */
static struct { int K; int nops[4]; int opk[4][12]; volatile int arrived; } A;
static volatile int owned_by[NKEYS];
static long st_overlap; static volatile int in_alloc;
static void * alloc_body(void * a) {
  int t = (int)(intptr_t)a;
  myth_key_t mine[12]; int nm = 0;
  /* GATE: spin (keeping the worker) until all K threads have arrived => K distinct workers */
  __sync_fetch_and_add(&A.arrived, 1);
  while (A.arrived < A.K) mv_spin(US_GATE);
  for (int i = 0; i < A.nops[t]; i++) {
    if (A.opk[t][i] == 0 || nm == 0) {
      myth_key_t k = -1;
      if (__sync_fetch_and_add(&in_alloc, 1) > 0) st_overlap++;
      int rc_create = myth_key_create(&k, 0);
      if (__sync_sub_and_fetch(&in_alloc, 1) > 0) st_overlap++;
      if (rc_create == 0) {
        if (k < 0 || k >= NKEYS) mt_fail("key_create returned %d", k);
        int prev = __sync_val_compare_and_swap(&owned_by[k], 0, t + 1);
        if (prev != 0) mt_fail("key_create handed key %d to thread %d while thread %d still owns it (concurrent create/delete: keys not pairwise distinct)", k, t, prev - 1);
        mine[nm++] = k;
      }
    } else {
      myth_key_t k = mine[--nm];
      owned_by[k] = 0;
      if (__sync_fetch_and_add(&in_alloc, 1) > 0) st_overlap++;
      int rc_del = myth_key_delete(k);
      if (__sync_sub_and_fetch(&in_alloc, 1) > 0) st_overlap++;
      if (rc_del) mt_fail("key_delete(%d) of an owned key failed", k);
    }
    op_done();
  }
  return 0;
}
void scen_c10_conc(mt_case * c) {
  mt_engine_cfg e; rd_t * r = &c->prog;
  mt_decode_engine(c, &e, 8);
  A.K = rd_range(r, 2, 4);
  if (e.W < A.K) e.W = A.K;
  if (getenv("MT_KNOWN") && strstr(getenv("MT_KNOWN"), "F8")) { mt_known("F8"); mt_reject("concurrent create/delete excluded: known finding F8"); }
  mt_desc("C10 concurrent key allocation: %d threads on distinct workers\n", A.K);
  for (int t = 0; t < A.K; t++) { A.nops[t] = rd_range(r, 1, 8); mt_desc(" t%d:", t); for (int i = 0; i < A.nops[t]; i++) { A.opk[t][i] = (int)rd_below(r, 2); mt_desc(" %s", A.opk[t][i] ? "delete" : "create"); } mt_desc("\n"); }
  mt_hash(c->prog.p, c->prog.pos);
  mt_lib_start(c, &e, 0);
  myth_thread_t th[4];
  for (int t = 0; t < A.K; t++) Z0(myth_create_ex(&th[t], 0, alloc_body, (void *)(intptr_t)t));
  for (int t = 0; t < A.K; t++) { Z0(myth_join(th[t], 0)); mv_progress(); }
  mt_lib_finish();
  mt_stat("ops_overlapped", st_overlap);
  if (st_overlap) mt_label("allocator_ops_overlapped");
  mt_nontrivial(st_overlap > 0);
}
